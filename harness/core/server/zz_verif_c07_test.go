//go:build verif

package server

// Correspondence harness for C07 (UDP session lifecycle) and C08 (per-datagram outbound
// policy).  It lives in /verif and is overlaid into package server, so it drives the REAL
// udpSessionManager / udpSessionEntry with fake udpIO / UDPConn / event logger, inside a
// testing/synctest bubble (virtual clock; a goroutine left behind is detected).
//
// A history is the op lines from one `reset` to the next.  Each op is ONE stimulus followed by
// synctest.Wait(); everything the code then calls in its environment is logged under one mutex.
// The canonical outcome line is compared with `hydrv udpsession` / `hydrv udpacl`; the oracles
// below are model-free (they look only at what the real code did).

import (
	"bufio"
	"encoding/hex"
	"encoding/json"
	"errors"
	"fmt"
	"os"
	"regexp"
	"runtime"
	"sort"
	"strconv"
	"strings"
	"sync"
	"testing"
	"testing/synctest"
	"time"

	"github.com/apernet/quic-go"

	"github.com/apernet/hysteria/core/v2/internal/frag"
	"github.com/apernet/hysteria/core/v2/internal/protocol"
	vh "github.com/apernet/hysteria/core/v2/verifhlib"
)

// ---------------------------------------------------------------- fakes

type vEv struct {
	at   time.Duration
	text string
	kind string // "logclose" events carry sid for grouping
	sid  uint32
}

type vConn struct {
	w        *vWorld
	k        int
	owner    uint32 // session whose datagram triggered the dial
	in       chan vPkt
	errCh    chan struct{}
	closedCh chan struct{}
	closes   int
	reading  bool
	sending  bool
	gate     chan error // non-nil while a SendMessage for this socket is blocked
	closeGate chan struct{} // non-nil: the next Close() blocks on it
	closeHeld bool          // a Close() call is parked right now
}

type vPkt struct {
	src  string
	data []byte
}

type vWorld struct {
	mu      sync.Mutex
	start   time.Time
	evs     []vEv
	oracle  []string
	clauses map[string]bool
	deny    map[string]bool
	hook    string
	dialErr bool
	wok     bool
	sendRes string
	curSid  uint32
	dialGate chan struct{} // non-nil: the next io.UDP call blocks on it
	dialHeld bool          // an io.UDP call is blocked right now
	socks   []*vConn
	recvCh  chan *protocol.UDPMessage
	lost    chan struct{}
	// registries for the isolation oracles
	fedSid    map[string]uint32 // payload tag (first 2 bytes) -> session id it was fed under
	replySock map[string]int    // reply payload -> socket it was injected into
	hookedTo  map[uint32]string // session -> rewritten address in force
	origOf    map[uint32]string
	// fragmentation of an upstream message
	bigData []byte
	bigSid  uint32
	bigOff  int
}

func (w *vWorld) logf(kind string, sid uint32, format string, a ...any) {
	w.evs = append(w.evs, vEv{at: time.Since(w.start), text: fmt.Sprintf(format, a...), kind: kind, sid: sid})
}

// fail records a model-free property failure.  Every message starts with the clause it belongs to
// ("isolation:", "close:", "census:", "lifecycle:", "fragment:" are C07's; "policy:", "override:",
// "cache:" are C08's); a component reports only the clauses of its own property, so that a change
// which breaks only the other property does not make this check alarm.
func (w *vWorld) fail(format string, a ...any) {
	msg := fmt.Sprintf(format, a...)
	clause := msg
	if i := strings.IndexByte(msg, ':'); i > 0 {
		clause = msg[:i]
	}
	if w.clauses != nil && !w.clauses[clause] {
		return
	}
	w.oracle = append(w.oracle, msg)
}

var clausesOf = map[string]map[string]bool{
	"udpsession": {"isolation": true, "close": true, "census": true, "lifecycle": true, "fragment": true},
	"udpacl":     {"policy": true, "override": true, "cache": true},
}

func (w *vWorld) denied(addr string) bool { return addr == "" || w.deny[addr] }

func aOut(a string) string {
	if a == "" {
		return "_"
	}
	return a
}

func aIn(a string) string {
	if a == "_" {
		return ""
	}
	return a
}

// --- udpIO

func (w *vWorld) ReceiveMessage() (*protocol.UDPMessage, error) {
	select {
	case m := <-w.recvCh:
		return m, nil
	case <-w.lost:
		return nil, errors.New("connection lost")
	}
}

func (w *vWorld) SendMessage(buf []byte, msg *protocol.UDPMessage) error {
	w.mu.Lock()
	data := append([]byte(nil), msg.Data...)
	if msg.FragCount > 1 {
		// a fragment of the message that was just refused as too large
		if msg.SessionID != w.bigSid {
			w.fail("isolation: upstream fragment tagged with session %d, the packet belongs to session %d", msg.SessionID, w.bigSid)
		}
		if w.bigOff+len(data) > len(w.bigData) || string(w.bigData[w.bigOff:w.bigOff+len(data)]) != string(data) {
			w.fail("fragment: upstream fragment %d/%d does not continue the packet", msg.FragID, msg.FragCount)
		}
		w.bigOff += len(data)
		w.mu.Unlock()
		return nil
	}
	k, known := w.replySock[string(data)]
	var c *vConn
	if known {
		c = w.socks[k]
		if msg.SessionID != c.owner {
			w.fail("isolation: packet read from socket %d (opened by session %d) was sent upstream tagged with session %d", k, c.owner, msg.SessionID)
		}
		if o, ok := w.origOf[c.owner]; ok && o != "" && msg.Addr != o {
			w.fail("override: reply of hooked session %d reported from %q, original address is %q", c.owner, msg.Addr, o)
		}
		w.logf("up", msg.SessionID, "up,%d,%d,%s,%s", k, msg.SessionID, aOut(msg.Addr), vh.Hex(data))
	} else {
		w.logf("up", msg.SessionID, "up,?,%d,%s,%s", msg.SessionID, aOut(msg.Addr), vh.Hex(data))
	}
	res := w.sendRes
	switch {
	case res == "err":
		w.mu.Unlock()
		return errors.New("send failed")
	case res == "block" && c != nil:
		c.gate = make(chan error)
		c.sending = true
		g := c.gate
		w.mu.Unlock()
		err := <-g
		w.mu.Lock()
		c.sending = false
		c.gate = nil
		w.mu.Unlock()
		return err
	case res == "big" && len(data) > 5:
		// (a real connection refuses a datagram as too large only if it IS larger than the limit it reports)
		w.bigData, w.bigSid, w.bigOff = data, msg.SessionID, 0
		w.mu.Unlock()
		return &quic.DatagramTooLargeError{MaxDatagramPayloadSize: int64(msg.HeaderSize() + 5)}
	}
	w.mu.Unlock()
	return nil
}

func (w *vWorld) Hook(data []byte, reqAddr *string) error {
	w.mu.Lock()
	defer w.mu.Unlock()
	switch {
	case w.hook == "E":
		delete(w.hookedTo, w.curSid)
		delete(w.origOf, w.curSid)
		w.logf("hook", 0, "hook,%s,E", aOut(*reqAddr))
		return errors.New("hook failed")
	case strings.HasPrefix(w.hook, "R:"):
		delete(w.hookedTo, w.curSid)
		delete(w.origOf, w.curSid)
		in := *reqAddr
		*reqAddr = aIn(w.hook[2:])
		w.logf("hook", 0, "hook,%s,%s", aOut(in), aOut(*reqAddr))
		if *reqAddr != in && *reqAddr != "" {
			w.hookedTo[w.curSid] = *reqAddr
			w.origOf[w.curSid] = in
		}
		return nil
	}
	delete(w.hookedTo, w.curSid)
	delete(w.origOf, w.curSid)
	w.logf("hook", 0, "hook,%s,%s", aOut(*reqAddr), aOut(*reqAddr))
	return nil
}

func (w *vWorld) UDP(reqAddr string) (UDPConn, error) {
	w.mu.Lock()
	defer w.mu.Unlock()
	if g := w.dialGate; g != nil {
		// a slow dial (name resolution, slow hook): block until the harness lets it finish
		w.dialGate = nil
		w.dialHeld = true
		w.mu.Unlock()
		<-g
		w.mu.Lock()
		w.dialHeld = false
	}
	if w.denied(reqAddr) || w.dialErr {
		w.logf("dial", 0, "dial,%s,fail", aOut(reqAddr))
		delete(w.hookedTo, w.curSid)
		delete(w.origOf, w.curSid)
		return nil, errors.New("dial refused")
	}
	c := &vConn{w: w, k: len(w.socks), owner: w.curSid, in: make(chan vPkt), errCh: make(chan struct{}, 1), closedCh: make(chan struct{})}
	w.socks = append(w.socks, c)
	w.logf("dial", 0, "dial,%s,%d", aOut(reqAddr), c.k)
	return c, nil
}

func (w *vWorld) CheckUDP(reqAddr string) error {
	w.mu.Lock()
	defer w.mu.Unlock()
	if w.denied(reqAddr) {
		w.logf("check", 0, "check,%s,0", aOut(reqAddr))
		return errors.New("rejected by policy")
	}
	w.logf("check", 0, "check,%s,1", aOut(reqAddr))
	return nil
}

// --- udpEventLogger

type vLogger struct{ w *vWorld }

func (l vLogger) New(sessionID uint32, reqAddr string) {
	l.w.mu.Lock()
	defer l.w.mu.Unlock()
	l.w.logf("new", sessionID, "new,%d,%s", sessionID, aOut(reqAddr))
}

func (l vLogger) Close(sessionID uint32, err error) {
	l.w.mu.Lock()
	defer l.w.mu.Unlock()
	e := "nil"
	if err != nil {
		e = "err"
	}
	l.w.logf("logclose", sessionID, "logclose,%d,%s", sessionID, e)
}

// --- UDPConn

func (c *vConn) ReadFrom(b []byte) (int, string, error) {
	c.w.mu.Lock()
	c.reading = true
	c.w.mu.Unlock()
	defer func() {
		c.w.mu.Lock()
		c.reading = false
		c.w.mu.Unlock()
	}()
	select {
	case <-c.closedCh:
		return 0, "", errors.New("use of closed connection")
	default:
	}
	select {
	case p := <-c.in:
		return copy(b, p.data), p.src, nil
	case <-c.errCh:
		return 0, "", errors.New("read error")
	case <-c.closedCh:
		return 0, "", errors.New("use of closed connection")
	}
}

func (c *vConn) WriteTo(b []byte, addr string) (int, error) {
	w := c.w
	w.mu.Lock()
	defer w.mu.Unlock()
	ok := w.wok && c.closes == 0
	fed := "?"
	if len(b) >= 2 {
		if sid, known := w.fedSid[string(b[:2])]; known {
			fed = strconv.FormatUint(uint64(sid), 10)
			if sid != c.owner {
				w.fail("isolation: datagram of session %d written to socket %d, which session %d opened", sid, c.k, c.owner)
			}
		}
	}
	if w.denied(addr) {
		w.fail("policy: WriteTo(%q) but the outbound policy rejects that destination", addr)
	}
	if h, hooked := w.hookedTo[c.owner]; hooked && addr != h {
		w.fail("override: session %d was rewritten to %q but a datagram went to %q", c.owner, h, addr)
	}
	r := "err"
	if ok {
		r = "ok"
	}
	w.logf("write", c.owner, "write,%d,%s,%s,%s,%s", c.k, fed, aOut(addr), vh.Hex(b), r)
	if !ok {
		return 0, errors.New("write failed")
	}
	return len(b), nil
}

func (c *vConn) Close() error {
	c.w.mu.Lock()
	defer c.w.mu.Unlock()
	c.closes++
	c.w.logf("close", c.owner, "close,%d", c.k)
	if g := c.closeGate; g != nil {
		// a slow Close(): the caller (inside CloseWithErr, holding connLock) is parked here
		c.closeGate = nil
		c.closeHeld = true
		c.w.mu.Unlock()
		<-g
		c.w.mu.Lock()
		c.closeHeld = false
	}
	if c.closes == 1 {
		close(c.closedCh)
	} else {
		c.w.fail("close: socket %d (session %d) closed %d times", c.k, c.owner, c.closes)
	}
	return nil
}

// ---------------------------------------------------------------- one history

type sessExp struct {
	last time.Duration
	k    int // socket token, -1 if none yet
}

type vHist struct {
	comp     string
	w        *vWorld
	sm       *udpSessionManager
	timeout  time.Duration
	runDone  bool
	down     bool
	held     *udpSessionEntry
	heldMsg  *protocol.UDPMessage
	exp      map[uint32]*sessExp // spec-level expectation: which sessions must be in the table
	ticksRun int                 // number of sweeper ticks that have fired so far
	sweeperFromStart bool        // an idleCleanupLoop goroutine exists right after Run started
	// udpacl
	e0 *udpSessionEntry
}

const vInterval = idleCleanupInterval

func (h *vHist) now() time.Duration { return time.Since(h.w.start) }

func (h *vHist) startManager(timeout time.Duration, deny string) {
	w := &vWorld{start: time.Now(), deny: map[string]bool{}, hook: "K", wok: true, sendRes: "ok",
		recvCh: make(chan *protocol.UDPMessage), lost: make(chan struct{}),
		fedSid: map[string]uint32{}, replySock: map[string]int{}, hookedTo: map[uint32]string{}, origOf: map[uint32]string{}}
	if deny != "." {
		for _, a := range strings.Split(deny, ",") {
			w.deny[aIn(a)] = true
		}
	}
	w.clauses = clausesOf[h.comp]
	h.w = w
	h.timeout = timeout
	h.exp = map[uint32]*sessExp{}
	h.sm = newUDPSessionManager(w, vLogger{w}, timeout)
	go func() {
		_ = h.sm.Run()
		w.mu.Lock()
		h.runDone = true
		w.mu.Unlock()
	}()
	synctest.Wait()
	// The stimuli that keep a connLock held across virtual time (slowdial, slowlost) rely on knowing when
	// the sweeper ticks: multiples of the interval after Run started. If the sweeper is not running from
	// the start (a changed tree), its phase is unknown, a tick could hit the held lock while this
	// goroutine sleeps and virtual time would freeze — those stimuli then do not hold anything.
	for _, g := range udpGoroutines() {
		if g == "idleCleanupLoop" {
			h.sweeperFromStart = true
		}
	}
}

// drain returns the events logged since the last call.
func (h *vHist) drain() []vEv {
	h.w.mu.Lock()
	defer h.w.mu.Unlock()
	e := h.w.evs
	h.w.evs = nil
	return e
}

// evText renders the events of a lifecycle op. CheckUDP calls are left out: whether and when the
// policy is consulted is C08's business (stream udpacl compares it exactly).
func evText(evs []vEv) string {
	var ss []string
	for _, e := range evs {
		if e.kind != "check" {
			ss = append(ss, e.text)
		}
	}
	if len(ss) == 0 {
		return "-"
	}
	return strings.Join(ss, " ")
}

func (h *vHist) tableSids() []uint32 {
	h.sm.mutex.RLock()
	defer h.sm.mutex.RUnlock()
	var ids []uint32
	for id := range h.sm.m {
		ids = append(ids, id)
	}
	sort.Slice(ids, func(i, j int) bool { return ids[i] < ids[j] })
	return ids
}

func (h *vHist) summary() string {
	h.sm.mutex.RLock()
	type row struct {
		id uint32
		s  string
	}
	var rows []row
	for id, e := range h.sm.m {
		rows = append(rows, row{id, fmt.Sprintf("%d@%d", id, e.Last.Get().Sub(h.w.start).Milliseconds())})
	}
	h.sm.mutex.RUnlock()
	sort.Slice(rows, func(i, j int) bool { return rows[i].id < rows[j].id })
	tbl := "."
	if len(rows) > 0 {
		ss := make([]string, len(rows))
		for i, r := range rows {
			ss[i] = r.s
		}
		tbl = strings.Join(ss, ",")
	}
	h.w.mu.Lock()
	var open []string
	loops := 0
	for _, c := range h.w.socks {
		if c.closes == 0 {
			open = append(open, strconv.Itoa(c.k))
		}
		if c.reading || c.sending {
			loops++
		}
	}
	rl := "idle"
	if h.runDone {
		rl = "done"
	} else if h.held != nil {
		rl = "feed"
	}
	sw := "idle"
	if h.runDone {
		sw = "done"
	}
	h.w.mu.Unlock()
	op := "."
	if len(open) > 0 {
		op = strings.Join(open, ",")
	}
	return fmt.Sprintf("tbl=%s open=%s loops=%d rl=%s sw=%s", tbl, op, loops, rl, sw)
}

func cacheKeys(e *udpSessionEntry) map[string]bool {
	m := map[string]bool{}
	if e != nil {
		for k := range e.aclCache {
			m[k] = true
		}
	}
	return m
}

// victimOf: the key the implementation's eviction removed (read from the real map).
func victimOf(before map[string]bool, e *udpSessionEntry) string {
	if e == nil {
		return "_"
	}
	for k := range before {
		if _, still := e.aclCache[k]; !still {
			return aOut(k)
		}
	}
	return "_"
}

func (h *vHist) lookupEntry(sid uint32) *udpSessionEntry {
	h.sm.mutex.RLock()
	defer h.sm.mutex.RUnlock()
	return h.sm.m[sid]
}

func parseMsg(f []string) (*protocol.UDPMessage, error) {
	sid, e1 := strconv.ParseUint(f[0], 10, 32)
	pid, e2 := strconv.ParseUint(f[1], 10, 16)
	fid, e3 := strconv.ParseUint(f[2], 10, 8)
	fc, e4 := strconv.ParseUint(f[3], 10, 8)
	if e1 != nil || e2 != nil || e3 != nil || e4 != nil {
		return nil, errors.New("bad number")
	}
	var data []byte
	if f[5] != "-" {
		var err error
		data, err = hex.DecodeString(f[5])
		if err != nil {
			return nil, err
		}
	}
	return &protocol.UDPMessage{SessionID: uint32(sid), PacketID: uint16(pid), FragID: uint8(fid), FragCount: uint8(fc),
		Addr: aIn(f[4]), Data: data}, nil
}

func (h *vHist) setEnv(hook, dialErr, wok string) bool {
	if hook != "K" && hook != "E" && !strings.HasPrefix(hook, "R:") {
		return false
	}
	if (dialErr != "0" && dialErr != "1") || (wok != "0" && wok != "1") {
		return false
	}
	h.w.mu.Lock()
	h.w.hook, h.w.dialErr, h.w.wok = hook, dialErr == "1", wok == "1"
	h.w.mu.Unlock()
	return true
}

// learn updates the spec-level expectation from what a feed of session sid was seen to do.
func (h *vHist) learn(sid uint32, evs []vEv, entryLive bool) {
	if !entryLive {
		return
	}
	x := h.exp[sid]
	if x == nil {
		x = &sessExp{k: -1}
		h.exp[sid] = x
	}
	x.last = h.now()
	for _, e := range evs {
		switch e.kind {
		case "hook":
			if strings.HasSuffix(e.text, ",E") {
				delete(h.exp, sid)
			}
		case "dial":
			if strings.HasSuffix(e.text, ",fail") {
				delete(h.exp, sid)
			} else {
				x.k, _ = strconv.Atoi(e.text[strings.LastIndexByte(e.text, ',')+1:])
			}
		}
	}
}

func (h *vHist) dropBySock(k int) {
	for sid, x := range h.exp {
		if x.k == k {
			delete(h.exp, sid)
		}
	}
}

// checkTable compares the real table with the expectation (idle expiry / activity keeps /
// closed on error), and Count() with the table.
func (h *vHist) checkTable() {
	ids := h.tableSids()
	if n := h.sm.Count(); n != len(ids) {
		h.w.fail("census: Count() = %d but the table holds %d sessions", n, len(ids))
	}
	have := map[uint32]bool{}
	for _, id := range ids {
		have[id] = true
		if h.exp[id] == nil {
			h.w.fail("lifecycle: session %d is still in the table at %v: it was closed by an error or idle longer than %v at a sweep", id, h.now(), h.timeout)
		}
	}
	for id, x := range h.exp {
		if !have[id] {
			h.w.fail("lifecycle: session %d is gone from the table at %v although its last activity was at %v (timeout %v) and nothing closed it", id, h.now(), x.last, h.timeout)
		}
	}
}

func (h *vHist) result(evs []vEv, prefix string) (string, bool) {
	return prefix + evText(evs) + " | " + h.summary(), len(evs) > 0
}

func (h *vHist) takeOracle() []string {
	h.w.mu.Lock()
	defer h.w.mu.Unlock()
	o := h.w.oracle
	h.w.oracle = nil
	return o
}

func (h *vHist) feedMsg(m *protocol.UDPMessage, direct *udpSessionEntry) {
	h.w.mu.Lock()
	h.w.curSid = m.SessionID
	if len(m.Data) >= 2 && m.FragID == 0 {
		h.w.fedSid[string(m.Data[:2])] = m.SessionID
	}
	h.w.mu.Unlock()
	if direct != nil {
		_, _ = direct.Feed(m)
	} else {
		h.w.recvCh <- m
	}
	synctest.Wait()
}

// do executes one op of a udpsession history.
func (h *vHist) do(op string) (res vh.Result) {
	f := strings.Fields(op)
	bad := vh.Result{Out: "bad-op"}
	if len(f) == 0 {
		return bad
	}
	switch f[0] {
	case "msg":
		if len(f) != 10 {
			return bad
		}
		m, err := parseMsg(f[1:7])
		if err != nil || !h.setEnv(f[7], f[8], f[9]) {
			return bad
		}
		if h.held != nil || h.down {
			return vh.Result{Out: "busy", ModelOp: op + " _"}
		}
		before := cacheKeys(h.lookupEntry(m.SessionID))
		h.feedMsg(m, nil)
		evs := h.drain()
		e := h.lookupEntry(m.SessionID)
		h.learn(m.SessionID, evs, true)
		res.ModelOp = op + " " + victimOf(before, e)
		res.Out, res.NonTrivial = h.result(evs, "")
	case "slowclose", "expirenew":
		// The sweeper is parked inside CloseWithErr → conn.Close() of session sid's expired entry (the
		// entry is closed, its exit function has not run yet) while a complete datagram re-using the id
		// arrives; then Close() returns. Steps: arm a gate on the session's socket, let virtual time run
		// to the first sweep that finds the entry idle, yield until the fake Close() has been entered,
		// deliver the datagram and wait (the sweeper sits on the gate channel, not on a mutex, and the
		// receive loop takes no connLock for an entry that has a conn), open the gate, wait.
		// Only the census is compared.
		//
		// `expirenew <target> <msg…>` is the same with the datagram carrying ANOTHER id than the expiring
		// session <target>: a session registered while the sweep that empties the table is still closing
		// (nothing is held across time afterwards; the following `sleep` must see it expire like any other).
		o := 0
		if f[0] == "expirenew" {
			o = 1
		}
		if len(f) != 10+o {
			return bad
		}
		m, err := parseMsg(f[1+o : 7+o])
		if err != nil || !h.setEnv(f[7+o], f[8+o], f[9+o]) {
			return bad
		}
		tsid := m.SessionID
		if o == 1 {
			t64, err := strconv.ParseUint(f[1], 10, 32)
			if err != nil {
				return bad
			}
			tsid = uint32(t64)
		}
		if h.held != nil || h.down {
			return vh.Result{Out: "busy", ModelOp: op + " ."}
		}
		var target *vConn
		if e := h.lookupEntry(tsid); e != nil {
			if vc, ok := e.conn.(*vConn); ok && vc != nil {
				h.w.mu.Lock()
				if vc.closes == 0 {
					target = vc
				}
				h.w.mu.Unlock()
			}
		}
		if target == nil {
			res.ModelOp = op + " ."
			res.Out = "skip | " + h.summary()
			break
		}
		t0 := h.now()
		lastAct := h.lookupEntry(tsid).Last.Get().Sub(h.w.start)
		tk := (time.Duration(int64(lastAct+h.timeout)/int64(vInterval)) + 1) * vInterval
		if tk <= t0 {
			tk = (time.Duration(int64(t0)/int64(vInterval)) + 1) * vInterval
		}
		gate := make(chan struct{})
		h.w.mu.Lock()
		target.closeGate = gate
		h.w.mu.Unlock()
		time.Sleep(tk - t0) // wakes at the same instant as the sweeper's ticker
		parked := false
		for i := 0; i < 400000 && !parked; i++ { // ends as soon as Close() is entered; the bound only guards a changed tree
			runtime.Gosched()
			h.w.mu.Lock()
			parked = target.closeHeld
			h.w.mu.Unlock()
		}
		if parked {
			h.feedMsg(m, nil)
		}
		h.w.mu.Lock()
		target.closeGate = nil
		h.w.mu.Unlock()
		close(gate)
		synctest.Wait()
		evs := h.drain()
		first := int(t0/vInterval) + 1
		last := int(tk / vInterval)
		groups := make([]string, 0, 4)
		for n := first; n <= last; n++ {
			var ids []string
			for _, e := range evs {
				if e.kind == "logclose" && e.at == time.Duration(n)*vInterval {
					ids = append(ids, strconv.FormatUint(uint64(e.sid), 10))
				}
			}
			if len(ids) == 0 {
				groups = append(groups, ".")
			} else {
				groups = append(groups, strings.Join(ids, ","))
			}
			// expectation: sessions idle at this sweep are gone; the datagram that met the dying entry
			// starts no session
			for sid, y := range h.exp {
				if time.Duration(n)*vInterval-y.last > h.timeout {
					delete(h.exp, sid)
				}
			}
		}
		// (if the sweeper was not seen parked — a heavily loaded machine, or a changed tree — the datagram
		// was not fed; for slowclose the census on the unchanged tree is the same either way)
		if parked && tsid != m.SessionID {
			h.learn(m.SessionID, evs, true) // a datagram of another session at tk
		}
		res.ModelOp = op + " " + strings.Join(groups, "/")
		res.Out, res.NonTrivial = "slowc | "+h.summary(), parked
	case "slowdial":
		// A datagram whose dial (if one happens) is still in flight when the sweep that finds the entry
		// idle fires: deliver the datagram with io.UDP blocked, let virtual time run to that sweep tick,
		// give the sweeper the chance to act (it either closes the entry — if the code does not hold
		// connLock across the dial — or blocks on connLock), then let the dial finish and wait.
		// Only the census is compared (the order of the sweeper's close and the receive loop's write is
		// a real race), so the outcome line carries no events.
		if len(f) != 10 {
			return bad
		}
		m, err := parseMsg(f[1:7])
		if err != nil || !h.setEnv(f[7], f[8], f[9]) {
			return bad
		}
		if h.held != nil || h.down {
			return vh.Result{Out: "busy", ModelOp: op + " _ ."}
		}
		t0 := h.now()
		tk := (time.Duration(int64(t0+h.timeout)/int64(vInterval)) + 1) * vInterval // first sweep that finds Last = t0 idle
		before := cacheKeys(h.lookupEntry(m.SessionID))
		// The dial is held only when that is safe on ANY tree: a goroutine waiting for connLock is not
		// "durably blocked" for synctest, so virtual time must not have to pass a sweep while the dial is
		// held other than the one this goroutine wakes up at.  Hence: the session is new (its Last is t0
		// whatever the code does with later stamps) and no sweep tick lies strictly between t0 and tk.
		// Otherwise the op is a plain datagram followed by the same passage of time.
		gate := make(chan struct{})
		if h.sweeperFromStart && h.lookupEntry(m.SessionID) == nil && tk-t0 <= vInterval {
			h.w.mu.Lock()
			h.w.dialGate = gate
			h.w.mu.Unlock()
		}
		h.feedMsg(m, nil)
		entry := h.lookupEntry(m.SessionID)
		time.Sleep(tk - t0) // wakes at the same instant as the sweeper's ticker
		h.w.mu.Lock()
		heldAtTick := h.w.dialHeld
		h.w.mu.Unlock()
		for i := 0; heldAtTick && i < 4000000; i++ { // ends on the close / the blocked closer; the bound only guards a changed tree
			runtime.Gosched()
			h.w.mu.Lock()
			closedSeen := false
			for _, e := range h.w.evs {
				if e.kind == "logclose" && e.sid == m.SessionID && e.at == tk {
					closedSeen = true
				}
			}
			h.w.mu.Unlock()
			if closedSeen || (i%64 == 63 && closerBlockedOnLock()) {
				break
			}
		}
		h.w.mu.Lock()
		h.w.dialGate = nil
		h.w.mu.Unlock()
		close(gate)
		synctest.Wait()
		evs := h.drain()
		// expectation: as a msg at t0 followed by the sweeps up to tk
		x := h.exp[m.SessionID]
		if x == nil {
			x = &sessExp{k: -1}
			h.exp[m.SessionID] = x
		}
		x.last = t0
		for _, e := range evs {
			if (e.kind == "hook" && strings.HasSuffix(e.text, ",E")) || (e.kind == "dial" && strings.HasSuffix(e.text, ",fail")) {
				delete(h.exp, m.SessionID)
			}
		}
		first := int(t0/vInterval) + 1
		last := int(tk / vInterval)
		groups := make([]string, 0, 4)
		for n := first; n <= last; n++ {
			var ids []string
			for _, e := range evs {
				if e.kind == "logclose" && e.at == time.Duration(n)*vInterval {
					ids = append(ids, strconv.FormatUint(uint64(e.sid), 10))
				}
			}
			if len(ids) == 0 {
				groups = append(groups, ".")
			} else {
				groups = append(groups, strings.Join(ids, ","))
			}
			for sid, y := range h.exp {
				if time.Duration(n)*vInterval-y.last > h.timeout {
					delete(h.exp, sid)
				}
			}
		}
		res.ModelOp = op + " " + victimOf(before, entry) + " " + strings.Join(groups, "/")
		res.Out, res.NonTrivial = "slow | "+h.summary(), heldAtTick
	case "hold":
		if len(f) != 7 {
			return bad
		}
		m, err := parseMsg(f[1:7])
		if err != nil {
			return bad
		}
		if h.held != nil || h.down {
			return vh.Result{Out: "busy"}
		}
		e := h.lookupEntry(m.SessionID) // the receive loop's RLock-lookup, done here
		if e == nil {
			res.Out, _ = h.result(nil, "miss ")
			return res
		}
		h.held, h.heldMsg = e, m
		res.Out, _ = h.result(nil, "held ")
		res.NonTrivial = true
	case "release":
		if len(f) != 4 || !h.setEnv(f[1], f[2], f[3]) {
			return bad
		}
		if h.held == nil {
			return vh.Result{Out: "busy", ModelOp: op + " _"}
		}
		e, m := h.held, h.heldMsg
		before := cacheKeys(e)
		live := h.lookupEntry(m.SessionID) == e
		h.feedMsg(m, e) // entry.Feed through the pointer obtained earlier
		h.held, h.heldMsg = nil, nil
		evs := h.drain()
		h.learn(m.SessionID, evs, live)
		res.ModelOp = op + " " + victimOf(before, e)
		res.Out, res.NonTrivial = h.result(evs, "")
	case "reply":
		if len(f) != 5 {
			return bad
		}
		k, err := strconv.Atoi(f[1])
		if err != nil || (f[4] != "ok" && f[4] != "err" && f[4] != "block" && f[4] != "big") {
			return bad
		}
		var data []byte
		if f[3] != "-" {
			if data, err = hex.DecodeString(f[3]); err != nil {
				return bad
			}
		}
		h.w.mu.Lock()
		var c *vConn
		if k >= 0 && k < len(h.w.socks) && h.w.socks[k].reading && h.w.socks[k].closes == 0 {
			c = h.w.socks[k]
			h.w.sendRes = f[4]
			h.w.replySock[string(data)] = k
		}
		h.w.mu.Unlock()
		if c != nil {
			c.in <- vPkt{src: aIn(f[2]), data: data}
			synctest.Wait()
			if x := h.exp[c.owner]; x != nil && x.k == k {
				x.last = h.now()
				if f[4] == "err" {
					delete(h.exp, c.owner)
				}
			}
			if f[4] == "big" && len(data) > 5 {
				h.w.mu.Lock()
				if h.w.bigOff != len(h.w.bigData) {
					h.w.fail("fragment: upstream packet of %d bytes was refused as too large but only %d bytes were re-sent as fragments", len(h.w.bigData), h.w.bigOff)
				}
				h.w.mu.Unlock()
			}
		}
		res.Out, res.NonTrivial = h.result(h.drain(), "")
	case "unblock":
		if len(f) != 3 || (f[2] != "ok" && f[2] != "err") {
			return bad
		}
		k, err := strconv.Atoi(f[1])
		if err != nil {
			return bad
		}
		h.w.mu.Lock()
		var g chan error
		var owner uint32
		if k >= 0 && k < len(h.w.socks) && h.w.socks[k].gate != nil {
			g, owner = h.w.socks[k].gate, h.w.socks[k].owner
			h.w.sendRes = "ok"
		}
		h.w.mu.Unlock()
		if g != nil {
			if f[2] == "ok" && !h.down {
				g <- nil
			} else {
				g <- errors.New("send failed")
				if x := h.exp[owner]; x != nil && x.k == k {
					delete(h.exp, owner)
				}
			}
			synctest.Wait()
		}
		res.Out, res.NonTrivial = h.result(h.drain(), "")
	case "readerr":
		if len(f) != 2 {
			return bad
		}
		k, err := strconv.Atoi(f[1])
		if err != nil {
			return bad
		}
		h.w.mu.Lock()
		var c *vConn
		if k >= 0 && k < len(h.w.socks) && h.w.socks[k].reading && h.w.socks[k].closes == 0 {
			c = h.w.socks[k]
		}
		h.w.mu.Unlock()
		if c != nil {
			c.errCh <- struct{}{}
			synctest.Wait()
			h.dropBySock(k)
		}
		res.Out, res.NonTrivial = h.result(h.drain(), "")
	case "sleep":
		if len(f) != 2 {
			return bad
		}
		ms, err := strconv.Atoi(f[1])
		if err != nil || ms < 0 || ms > 3600000 {
			return bad
		}
		t0 := h.now()
		time.Sleep(time.Duration(ms) * time.Millisecond)
		synctest.Wait()
		t1 := h.now()
		evs := h.drain()
		first := int(t0/vInterval) + 1
		last := int(t1 / vInterval)
		groups := make([]string, 0, 4)
		for n := first; n <= last; n++ {
			var ids []string
			for _, e := range evs {
				if e.kind == "logclose" && e.at == time.Duration(n)*vInterval {
					ids = append(ids, strconv.FormatUint(uint64(e.sid), 10))
				}
			}
			if len(ids) == 0 {
				groups = append(groups, ".")
			} else {
				groups = append(groups, strings.Join(ids, ","))
			}
			// expectation: a session idle longer than the timeout at this tick is gone
			if !h.runDone {
				for sid, x := range h.exp {
					if time.Duration(n)*vInterval-x.last > h.timeout {
						delete(h.exp, sid)
					}
				}
			}
		}
		if len(groups) == 0 {
			groups = append(groups, ".")
		}
		res.ModelOp = op + " " + strings.Join(groups, "/")
		res.Out, res.NonTrivial = h.result(evs, "")
	case "slowlost":
		// Connection loss whose final cleanup(false) is still walking its list when the next sweep fires:
		// every open socket's Close() is gated, so the receive loop parks inside the first CloseWithErr of
		// its walk; virtual time runs to the next sweep tick (this goroutine wakes at the same instant);
		// the sweeper scans and either parks in a gated Close() of an idle session or waits for the
		// connLock the receive loop holds; then all gates open.  Only the census is compared.
		if len(f) != 1 {
			return bad
		}
		if h.held != nil {
			return vh.Result{Out: "busy"}
		}
		if !h.down {
			t0 := h.now()
			tk := (time.Duration(int64(t0)/int64(vInterval)) + 1) * vInterval
			gate := make(chan struct{})
			h.w.mu.Lock()
			for _, c := range h.w.socks {
				if c.closes == 0 && h.sweeperFromStart {
					c.closeGate = gate
				}
			}
			h.w.mu.Unlock()
			h.down = true
			close(h.w.lost)
			synctest.Wait() // the receive loop is parked on the gate channel (or done, if no socket was open)
			time.Sleep(tk - t0)
			parkedNow := func() int {
				h.w.mu.Lock()
				defer h.w.mu.Unlock()
				n := 0
				for _, c := range h.w.socks {
					if c.closeHeld {
						n++
					}
				}
				return n
			}
			if parkedNow() > 0 {
				for i := 0; i < 200000; i++ { // until the sweeper has scanned and started closing (or: nothing idle)
					runtime.Gosched()
					if parkedNow() >= 2 || (i%64 == 63 && closerBlockedOnLock()) {
						break
					}
				}
			}
			close(gate)
			synctest.Wait()
			h.w.mu.Lock()
			var gates []chan error
			for _, c := range h.w.socks {
				if c.gate != nil {
					gates = append(gates, c.gate)
				}
			}
			h.w.mu.Unlock()
			for _, g := range gates {
				g <- errors.New("connection lost")
			}
			synctest.Wait()
			h.exp = map[uint32]*sessExp{}
		}
		evs := h.drain()
		res.Out, res.NonTrivial = "slowl | "+h.summary(), len(evs) > 0
	case "connlost":
		if len(f) != 1 {
			return bad
		}
		if h.held != nil {
			return vh.Result{Out: "busy", ModelOp: op + " ."}
		}
		evs := h.shutdown()
		var ids []string
		for _, e := range evs {
			if e.kind == "logclose" {
				ids = append(ids, strconv.FormatUint(uint64(e.sid), 10))
			}
		}
		order := "."
		if len(ids) > 0 {
			order = strings.Join(ids, ",")
		}
		res.ModelOp = op + " " + order
		res.Out, res.NonTrivial = h.result(evs, "")
	default:
		return bad
	}
	h.checkTable()
	res.Oracle = h.takeOracle()
	return res
}

// shutdown: the connection dies. ReceiveMessage fails; then every blocked SendMessage fails.
func (h *vHist) shutdown() []vEv {
	if !h.down {
		h.down = true
		close(h.w.lost)
		synctest.Wait()
		h.w.mu.Lock()
		var gates []chan error
		for _, c := range h.w.socks {
			if c.gate != nil {
				gates = append(gates, c.gate)
			}
		}
		h.w.mu.Unlock()
		for _, g := range gates {
			g <- errors.New("connection lost")
		}
		synctest.Wait()
		h.exp = map[uint32]*sessExp{}
	}
	return h.drain()
}

// finish runs the end-of-history census (after connection loss) and releases whatever is left so
// that the bubble can end.
func (h *vHist) finish() []string {
	if h.sm == nil {
		return nil
	}
	if h.held != nil {
		h.held, h.heldMsg = nil, nil
	}
	h.shutdown()
	w := h.w
	w.mu.Lock()
	for _, c := range w.socks {
		if c.closes != 1 {
			w.fail("census: socket %d opened by session %d was closed %d times by the end (want exactly 1)", c.k, c.owner, c.closes)
		}
		if c.reading || c.sending {
			w.fail("census: the reply loop of socket %d (session %d) is still running after the connection ended", c.k, c.owner)
		}
	}
	if !h.runDone {
		w.fail("census: Run() has not returned after ReceiveMessage failed")
	}
	w.mu.Unlock()
	if n := h.sm.Count(); n != 0 {
		w.fail("census: %d sessions left in the table after the connection ended", n)
	}
	// release leaked reply loops so that the bubble can end, then count goroutines
	leaked := false
	w.mu.Lock()
	for _, c := range w.socks {
		if c.closes == 0 {
			c.closes = -1000000
			close(c.closedCh)
			leaked = true
		}
	}
	w.mu.Unlock()
	synctest.Wait()
	if left := udpGoroutines(); len(left) > 0 && !leaked {
		w.fail("census: %d goroutines still run udp.go code after the connection ended: %s", len(left), strings.Join(left, " "))
	}
	return h.takeOracle()
}

var udpFrameRe = regexp.MustCompile(`server\.\(\*udpSession(?:Manager|Entry)\)\.(\w+)`)

// udpGoroutines lists, from a dump of all goroutine stacks, the goroutines that are inside a method
// of udpSessionManager / udpSessionEntry (innermost such frame of each).
func udpGoroutines() []string {
	buf := make([]byte, 1<<20)
	buf = buf[:runtime.Stack(buf, true)]
	var out []string
	for _, g := range strings.Split(string(buf), "\n\n") {
		if m := udpFrameRe.FindStringSubmatch(g); m != nil {
			out = append(out, m[1])
		}
	}
	sort.Strings(out)
	return out
}

// closerBlockedOnLock: some goroutine is inside CloseWithErr waiting for a mutex (the sweeper behind
// connLock while the receive loop's dial is in flight).
func closerBlockedOnLock() bool {
	buf := make([]byte, 1<<20)
	buf = buf[:runtime.Stack(buf, true)]
	for _, g := range strings.Split(string(buf), "\n\n") {
		if strings.Contains(g, "udpSessionEntry).CloseWithErr") && strings.Contains(g, "sync.(*Mutex).") {
			return true
		}
	}
	return false
}

// ---------------------------------------------------------------- udpacl (C08, one session, exact cache)

const aclSid = 7

func (h *vHist) aclSummary() string {
	e := h.e0
	if e == nil {
		return "conn=0 closed=0 ovr=_ org=_ cache=."
	}
	e.connLock.Lock()
	closed := e.closed
	e.connLock.Unlock()
	var keys []string
	for k := range e.aclCache {
		keys = append(keys, k)
	}
	sort.Strings(keys)
	cs := "."
	if len(keys) > 0 {
		ss := make([]string, len(keys))
		for i, k := range keys {
			if e.aclCache[k] == nil {
				ss[i] = aOut(k) + "+"
			} else {
				ss[i] = aOut(k) + "-"
			}
		}
		cs = strings.Join(ss, ",")
	}
	b := func(x bool) string {
		if x {
			return "1"
		}
		return "0"
	}
	return fmt.Sprintf("conn=%s closed=%s ovr=%s org=%s cache=%s", b(e.conn != nil), b(closed), aOut(e.OverrideAddr), aOut(e.OriginalAddr), cs)
}

func aclEvText(evs []vEv) (string, bool) {
	var ss []string
	for _, e := range evs {
		p := strings.Split(e.text, ",")
		switch e.kind {
		case "dial":
			ok := "1"
			if p[2] == "fail" {
				ok = "0"
			}
			ss = append(ss, "dial,"+p[1]+","+ok)
		case "check":
			ss = append(ss, "check,"+p[1])
		case "write":
			ss = append(ss, "write,"+p[3])
		case "up":
			ss = append(ss, "up,"+p[3])
		}
	}
	if len(ss) == 0 {
		return "-", false
	}
	return strings.Join(ss, " "), true
}

func (h *vHist) doAcl(op string, seq *int) (res vh.Result) {
	f := strings.Fields(op)
	bad := vh.Result{Out: "bad-op"}
	if len(f) == 0 {
		return bad
	}
	switch f[0] {
	case "dg":
		if len(f) != 4 || !h.setEnv(f[2], f[3], "1") {
			return bad
		}
		*seq++
		m := &protocol.UDPMessage{SessionID: aclSid, FragCount: 1, Addr: aIn(f[1]), Data: []byte{byte(*seq >> 8), byte(*seq), 0xac}}
		before := cacheKeys(h.e0)
		if h.e0 == nil {
			h.feedMsg(m, nil)
			// the entry the real feed() created (it may already be deleted again after a failed dial:
			// then the table is empty and the history continues on nothing)
			h.e0 = h.lookupEntry(aclSid)
			if h.e0 == nil {
				// same state as the deleted entry: constructed by the real constructor, closed
				// (its dial function refuses: whether a closed entry may dial again is C07's clause, not C08's)
				h.e0 = newUDPSessionEntry(aclSid, h.w,
					func(string, []byte) (UDPConn, string, error) { return nil, "", errors.New("session is gone") },
					func(error) {})
				h.e0.closed = true
			}
		} else if h.lookupEntry(aclSid) == h.e0 {
			h.feedMsg(m, nil)
		} else {
			h.feedMsg(m, h.e0) // the entry has exited: Feed through the stale pointer
		}
		txt, nt := aclEvText(h.drain())
		res.ModelOp = op + " " + victimOf(before, h.e0)
		res.Out, res.NonTrivial = txt+" | "+h.aclSummary(), nt
		// model-free: the cache never exceeds its capacity
		if n := len(h.e0.aclCache); n > maxSessionACLCache {
			h.w.fail("cache: %d decisions cached, capacity is %d", n, maxSessionACLCache)
		}
		for k, v := range h.e0.aclCache {
			if (v == nil) == h.w.denied(k) {
				h.w.fail("cache: cached verdict for %q is allowed=%v but the policy says allowed=%v", k, v == nil, !h.w.denied(k))
			}
		}
	case "reply":
		if len(f) != 2 {
			return bad
		}
		*seq++
		data := []byte{0xee, byte(*seq >> 8), byte(*seq)}
		h.w.mu.Lock()
		var c *vConn
		if len(h.w.socks) > 0 && h.w.socks[0].reading && h.w.socks[0].closes == 0 {
			c = h.w.socks[0]
			h.w.sendRes = "ok"
			h.w.replySock[string(data)] = 0
		}
		h.w.mu.Unlock()
		if c != nil {
			c.in <- vPkt{src: aIn(f[1]), data: data}
			synctest.Wait()
		}
		txt, nt := aclEvText(h.drain())
		res.Out, res.NonTrivial = txt+" | "+h.aclSummary(), nt
	default:
		return bad
	}
	res.Oracle = h.takeOracle()
	return res
}

// ---------------------------------------------------------------- running histories

var resetRe = regexp.MustCompile(`^reset\b`)

// runHistory executes the ops of one history (first line is its reset) in a fresh bubble.
func runHistory(t *testing.T, comp string, ops []string) (out []vh.Result) {
	out = make([]vh.Result, 0, len(ops))
	defer func() {
		if r := recover(); r != nil {
			msg := strings.ReplaceAll(fmt.Sprint(r), "\n", " ")
			for len(out) < len(ops) {
				out = append(out, vh.Result{Out: "panic"})
			}
			out[len(out)-1].Oracle = append(out[len(out)-1].Oracle, "panic or deadlock in the bubble: "+msg)
		}
	}()
	synctest.Test(t, func(t *testing.T) {
		h := &vHist{comp: comp}
		seq := 0
		for _, op := range ops {
			var r vh.Result
			func() {
				defer func() {
					if p := recover(); p != nil {
						r = vh.Result{Out: "panic", Oracle: []string{"panic escaped the implementation: " + strings.ReplaceAll(fmt.Sprint(p), "\n", " ")}}
					}
				}()
				f := strings.Fields(op)
				switch {
				case len(f) > 0 && f[0] == "reset":
					r = vh.Result{Out: "bad-op"}
					if h.sm != nil {
						return // a history has exactly one reset
					}
					if comp == "udpacl" && len(f) == 2 {
						h.startManager(time.Hour, f[1])
						r = vh.Result{Out: "ok"}
					} else if comp == "udpsession" && len(f) == 3 {
						ms, err := strconv.Atoi(f[1])
						if err == nil && ms > 0 {
							h.startManager(time.Duration(ms)*time.Millisecond, f[2])
							r = vh.Result{Out: "ok"}
						}
					}
				case h.sm == nil:
					r = vh.Result{Out: "bad-op"}
				case comp == "udpacl":
					r = h.doAcl(op, &seq)
				default:
					r = h.do(op)
				}
			}()
			out = append(out, r)
		}
		if extra := h.finish(); len(extra) > 0 && len(out) > 0 {
			out[len(out)-1].Oracle = append(out[len(out)-1].Oracle, extra...)
		}
	})
	return out
}

func readOps(path string) ([]string, error) {
	b, err := os.ReadFile(path)
	if err != nil {
		return nil, err
	}
	if s := strings.TrimSpace(string(b)); strings.HasPrefix(s, "{") {
		// a replay file written by tools/hv: take the op list of the first failure
		var rp struct {
			Failing []struct {
				Ops []string `json:"ops"`
			} `json:"failing"`
		}
		if err := json.Unmarshal(b, &rp); err != nil {
			return nil, err
		}
		if len(rp.Failing) == 0 {
			return nil, errors.New("replay file has no failing entry")
		}
		return rp.Failing[0].Ops, nil
	}
	var ops []string
	sc := bufio.NewScanner(strings.NewReader(string(b)))
	sc.Buffer(make([]byte, 1<<20), 1<<26)
	for sc.Scan() {
		ln := strings.TrimSpace(sc.Text())
		if ln == "" || strings.HasPrefix(ln, "#") {
			continue
		}
		ops = append(ops, ln)
	}
	return ops, nil
}

type taggedOp struct {
	op   string
	tags []string
}

func TestVerifC07(t *testing.T) {
	out := os.Getenv("VERIF_OUT")
	if out == "" {
		t.Skip("VERIF_OUT not set")
	}
	comp := os.Getenv("VERIF_COMPONENT")
	if comp != "udpacl" && comp != "udpsession" {
		t.Fatalf("unknown component %q", comp)
	}
	var seed uint64 = 1
	n := 1000
	fmt.Sscan(os.Getenv("VERIF_SEED"), &seed)
	fmt.Sscan(os.Getenv("VERIF_N"), &n)

	var all []taggedOp
	if p := os.Getenv("VERIF_OPS"); p != "" {
		ops, err := readOps(p)
		if err != nil {
			t.Fatal(err)
		}
		for _, o := range ops {
			all = append(all, taggedOp{o, []string{"corpus"}})
		}
	} else {
		emit := func(op string, tags ...string) { all = append(all, taggedOp{op, tags}) }
		if comp == "udpacl" {
			genAcl(vh.NewRNG(seed), n, emit)
		} else {
			genSession(vh.NewRNG(seed), n, emit)
		}
	}

	e := vh.NewEmitter(out)
	defer e.Close()
	flush := func(h []taggedOp) {
		if len(h) == 0 {
			return
		}
		ops := make([]string, len(h))
		for i := range h {
			ops[i] = h[i].op
		}
		rs := runHistory(t, comp, ops)
		for i, r := range rs {
			e.Case(h[i].op, r.ModelOp, r.Out, r.NonTrivial, h[i].tags...)
			if j := strings.IndexByte(r.Out, ' '); j > 0 {
				e.Tag("out:" + strings.SplitN(r.Out[:j], ",", 2)[0])
			} else {
				e.Tag("out:" + r.Out)
			}
			for _, o := range r.Oracle {
				e.OracleFail("%s", o)
			}
		}
	}
	var cur []taggedOp
	for _, o := range all {
		if resetRe.MatchString(o.op) {
			flush(cur)
			cur = nil
		}
		cur = append(cur, o)
	}
	flush(cur)
}

// ---------------------------------------------------------------- generators

func addrPool(n int) []string {
	p := make([]string, n)
	for i := range p {
		p[i] = fmt.Sprintf("a%d:53", i)
	}
	return p
}

func denyList(r *vh.RNG, pool []string, num, den int) string {
	var d []string
	for _, a := range pool {
		if r.Chance(num, den) {
			d = append(d, a)
		}
	}
	if len(d) == 0 {
		return "."
	}
	return strings.Join(d, ",")
}

// genAcl: destination sequences of one session under a PRNG-chosen policy.
func genAcl(r *vh.RNG, n int, emit func(op string, tags ...string)) {
	pool := addrPool(700)
	total := 0
	for total < n {
		kind := r.Intn(10)
		dens := [][2]int{{0, 1}, {1, 5}, {1, 2}, {9, 10}}[r.Intn(4)]
		deny := denyList(r, pool, dens[0], dens[1])
		if r.Chance(1, 6) {
			if deny == "." {
				deny = "h0:9"
			} else {
				deny += ",h0:9"
			}
		}
		emit("reset "+deny, "acl:reset")
		total++
		hook := func(first bool) string {
			if !first {
				return []string{"K", "K", "K", "E", "R:h1:9"}[r.Intn(5)] // ignored by the code after the first dial
			}
			switch r.Intn(12) {
			case 0:
				return "E"
			case 1, 2:
				return "R:h" + strconv.Itoa(r.Intn(2)) + ":9"
			case 3:
				return "R:_" // hook empties the address (the fake outbound rejects "")
			case 4:
				return "R:" + pool[r.Intn(8)]
			}
			return "K"
		}
		dg := func(a string, first bool, tag string) {
			de := "0"
			if r.Chance(1, 25) {
				de = "1"
			}
			emit("dg "+a+" "+hook(first)+" "+de, tag)
			total++
			if !first && r.Chance(1, 6) { // the same destination again, back to back
				emit("dg "+a+" K 0", "acl:repeat")
				total++
			}
		}
		switch {
		case kind < 4: // overflow the cache, revisit evicted keys, alternate allowed / denied
			first := pool[r.Intn(len(pool))]
			if !r.Chance(1, 10) {
				for j := 0; j < 50 && strings.Contains(","+deny+",", ","+first+","); j++ {
					first = pool[r.Intn(len(pool))]
				}
				hk := "K"
				if r.Chance(1, 5) {
					hk = "R:h" + strconv.Itoa(r.Intn(2)) + ":9"
				}
				emit("dg "+first+" "+hk+" 0", "acl:first")
				total++
			} else {
				dg(first, true, "acl:first")
			}
			m := r.Range(maxSessionACLCache-4, maxSessionACLCache+120)
			off := r.Intn(300)
			for i := 0; i < m; i++ {
				dg(pool[(off+i)%len(pool)], false, "acl:fill")
			}
			for i := 0; i < 80; i++ {
				switch r.Intn(4) {
				case 0:
					dg(pool[(off+r.Intn(m))%len(pool)], false, "acl:revisit")
				case 1:
					dg(pool[(off+r.Intn(8))%len(pool)], false, "acl:revisit-early")
				case 2:
					dg(pool[r.Intn(len(pool))], false, "acl:random")
				default:
					emit("reply "+pool[r.Intn(len(pool))], "acl:reply")
					total++
				}
			}
		case kind == 4: // hook rewriting combined with the policy: original / rewritten address each allowed or denied
			orig, rew := pool[r.Intn(12)], pool[12+r.Intn(12)]
			if r.Chance(1, 3) {
				rew = "h" + strconv.Itoa(r.Intn(2)) + ":9"
			}
			emit("dg "+orig+" R:"+rew+" 0", "acl:hookpolicy")
			total++
			for i := 0; i < r.Range(2, 10); i++ {
				switch r.Intn(4) {
				case 0:
					emit("reply "+[]string{rew, orig, pool[r.Intn(24)]}[r.Intn(3)], "acl:reply")
					total++
				case 1:
					dg(orig, false, "acl:hookpolicy")
				default:
					dg(pool[r.Intn(24)], false, "acl:hookpolicy")
				}
			}
		case kind < 7: // few destinations, many repeats
			k := r.Range(1, 6)
			for i := 0; i < 40; i++ {
				if r.Chance(1, 6) {
					emit("reply "+pool[r.Intn(k)], "acl:reply")
					total++
				} else {
					dg(pool[r.Intn(k)], i == 0, "acl:small")
				}
			}
		default: // short random
			for i := 0; i < r.Range(1, 30); i++ {
				if r.Chance(1, 5) {
					emit("reply "+pool[r.Intn(len(pool))], "acl:reply")
					total++
				} else {
					dg(pool[r.Intn(len(pool))], i == 0, "acl:short")
				}
			}
		}
	}
}

// genSession: histories over several session ids.
func genSession(r *vh.RNG, n int, emit func(op string, tags ...string)) {
	pool := addrPool(8)
	sids := []uint32{1, 2, 3, 4, 5, 4000000000}
	total := 0
	seq := 0
	for total < n {
		timeoutMs := []int{1500, 2000, 2250, 3000, 1000, 500, 500, 750}[r.Intn(8)]
		// allow-all policy, no address rewriting: these histories are about the lifecycle only (policy and
		// override variety live in the udpacl stream of C08)
		emit(fmt.Sprintf("reset %d .", timeoutMs), "s:reset")
		total++
		if r.Chance(1, 12) {
			// a new session is registered while the sweep that empties the table is still closing; then silence
			nA := r.Range(1, 3)
			for i := 0; i < nA; i++ {
				seq++
				emit(fmt.Sprintf("msg %d 0 0 1 %s %s K 0 1", i+1, pool[r.Intn(len(pool))], vh.Hex([]byte{byte(seq>>8) | 0x80, byte(seq), 2})), "s:msg")
			}
			seq++
			emit(fmt.Sprintf("expirenew 1 %d 0 0 1 %s %s K 0 1", 7+r.Intn(2), pool[r.Intn(len(pool))], vh.Hex([]byte{byte(seq>>8) | 0x80, byte(seq), 3})), "s:expirenew")
			emit(fmt.Sprintf("sleep %d", timeoutMs+2000+250*r.Intn(4)), "s:sleep")
			if r.Chance(1, 2) {
				seq++
				emit(fmt.Sprintf("msg 3 0 0 1 %s %s K 0 1", pool[r.Intn(len(pool))], vh.Hex([]byte{byte(seq>>8) | 0x80, byte(seq), 4})), "s:msg")
				emit(fmt.Sprintf("sleep %d", timeoutMs+1000), "s:sleep")
				total += 2
			}
			emit("connlost", "s:connlost")
			total += nA + 3
			continue
		}
		if r.Chance(1, 10) {
			// connection loss racing the sweep: a group of sessions that becomes idle exactly at the next
			// sweep, a younger group that is not idle, then the loss with slow Close() calls
			ids := []uint32{1, 2, 3, 4, 5, 6, 7, 8}
			nOld, nNew := r.Range(2, 4), r.Range(1, 4)
			mk := func(id uint32) {
				seq++
				emit(fmt.Sprintf("msg %d 0 0 1 %s %s K 0 1", id, pool[r.Intn(len(pool))], vh.Hex([]byte{byte(seq>>8) | 0x80, byte(seq), 1})), "s:msg")
				total++
			}
			for i := 0; i < nOld; i++ {
				mk(ids[i])
			}
			emit("sleep 750", "s:sleep")
			for i := 0; i < nNew; i++ {
				mk(ids[nOld+i])
			}
			// old group: Last = 0, idle at the first tick t with t > timeout; wait until just before it
			first := (timeoutMs/1000 + 1) * 1000
			d := first - 750 - []int{250, 500, 1}[r.Intn(3)]
			if d <= 0 {
				d = 1
			}
			emit(fmt.Sprintf("sleep %d", d), "s:sleep")
			emit("slowlost", "s:slowlost")
			emit("connlost", "s:connlost")
			total += 4
			continue
		}
		nops := r.Range(5, 40)
		dials := 0
		heldFor := 0
		holding := false
		lost := false
		payload := func(l int) []byte {
			seq++
			b := r.Bytes(l)
			b[0], b[1] = byte(seq>>8)|0x80, byte(seq)
			return b
		}
		env := func() string {
			hook := "K"
			if r.Chance(1, 14) {
				hook = "E"
			}
			de, wok := "0", "1"
			if r.Chance(1, 16) {
				de = "1"
			}
			if r.Chance(1, 12) {
				wok = "0"
			}
			return hook + " " + de + " " + wok
		}
		msgLine := func(m *protocol.UDPMessage) string {
			return fmt.Sprintf("%d %d %d %d %s %s", m.SessionID, m.PacketID, m.FragID, m.FragCount, aOut(m.Addr), vh.Hex(m.Data))
		}
		sleepLine := func() string {
			d := []int{250, 500, 750, 1000, 1250, 2000, 3000, timeoutMs, timeoutMs + 1000, timeoutMs - 250, 1, 999, 4000}[r.Intn(13)]
			return "sleep " + strconv.Itoa(d)
		}
		for i := 0; i < nops && total < n+40; i++ {
			sid := sids[r.Intn(len(sids))]
			if r.Chance(2, 3) {
				sid = sids[r.Intn(3)]
			}
			c := r.Intn(100)
			switch {
			case lost:
				// after the connection ended: a few probes, then the history ends
				switch r.Intn(4) {
				case 0:
					emit(sleepLine(), "s:sleep-after")
				case 1:
					emit(fmt.Sprintf("reply %d %s %s ok", r.Intn(dials+1), pool[0], vh.Hex(payload(3))), "s:reply-after")
				case 2:
					emit("msg "+msgLine(&protocol.UDPMessage{SessionID: sid, FragCount: 1, Addr: pool[0], Data: payload(3)})+" "+env(), "s:msg-after")
				default:
					emit("connlost", "s:connlost-again")
				}
				total++
				if r.Chance(1, 2) {
					i = nops
				}
			case holding:
				// between hold and release only the other goroutines act
				heldFor++
				if heldFor > 3 {
					emit("release "+env(), "s:release")
					holding = false
					total++
					break
				}
				switch r.Intn(4) {
				case 0:
					emit(sleepLine(), "s:sleep-held")
				case 1:
					emit(fmt.Sprintf("readerr %d", r.Intn(dials+1)), "s:readerr-held")
				default:
					emit("release "+env(), "s:release")
					holding = false
				}
				total++
			case c >= 96 && c < 99 && !lost: // id re-used while the sweeper is parked in Close() of the expired entry
				m := &protocol.UDPMessage{SessionID: sids[r.Intn(3)], PacketID: uint16(r.Intn(4)), FragCount: 1, Addr: pool[r.Intn(len(pool))], Data: payload(r.Range(2, 12))}
				if r.Chance(2, 3) { // make it likely that the session has a socket
					m0 := *m
					m0.Data = payload(r.Range(2, 8))
					emit("msg "+msgLine(&m0)+" K 0 1", "s:msg")
					total++
				}
				emit("slowclose "+msgLine(m)+" "+env(), "s:slowclose")
				if r.Chance(1, 2) { // a later datagram with the id must get exactly one new socket
					m2 := *m
					m2.Data = payload(r.Range(2, 8))
					emit("msg "+msgLine(&m2)+" "+env(), "s:msg")
					total++
				}
				dials++
				total++
			case c < 5: // first dial still in flight when the sweep finds the entry idle
				m := &protocol.UDPMessage{SessionID: sids[r.Intn(len(sids))], PacketID: uint16(r.Intn(4)), FragCount: 1, Addr: pool[r.Intn(len(pool))], Data: payload(r.Range(2, 12))}
				emit("slowdial "+msgLine(m)+" "+env(), "s:slowdial")
				if dials < 3 || r.Chance(1, 3) {
					dials++
				}
				total++
			case c < 30: // complete datagram
				m := &protocol.UDPMessage{SessionID: sid, PacketID: uint16(r.Intn(4)), FragCount: 1, Addr: pool[r.Intn(len(pool))], Data: payload(r.Range(2, 12))}
				if r.Chance(1, 10) {
					m.FragCount = 0
				}
				emit("msg "+msgLine(m)+" "+env(), "s:msg")
				if dials < 3 || r.Chance(1, 3) {
					dials++
				}
				total++
			case c < 42: // fragmented datagram through the real splitter: complete, shuffled, incomplete, duplicated
				m := &protocol.UDPMessage{SessionID: sid, PacketID: uint16(r.Range(1, 5)), FragCount: 1, Addr: pool[r.Intn(len(pool))], Data: payload(r.Range(12, 40))}
				fr := frag.FragUDPMessage(m, m.HeaderSize()+r.Range(4, 9))
				idx := make([]int, len(fr))
				for j := range idx {
					idx[j] = j
				}
				mode := r.Intn(5)
				if mode == 1 || mode == 4 {
					for j := len(idx) - 1; j > 0; j-- {
						k := r.Intn(j + 1)
						idx[j], idx[k] = idx[k], idx[j]
					}
				}
				if mode == 2 && len(idx) > 1 {
					idx = idx[:len(idx)-1] // incomplete
				}
				if mode == 3 {
					idx = append(idx[:1], idx...) // duplicate
				}
				for _, j := range idx {
					f := fr[j]
					if mode == 4 && r.Chance(1, 3) {
						f.Addr = pool[r.Intn(len(pool))] // fragments may disagree on the address
					}
					emit("msg "+msgLine(&f)+" "+env(), "s:frag")
					total++
					if r.Chance(1, 6) {
						emit(sleepLine(), "s:sleep")
						total++
					}
				}
				if dials < 3 || r.Chance(1, 3) {
					dials++
				}
			case c < 44: // malformed fragment numbering
				m := &protocol.UDPMessage{SessionID: sid, PacketID: 9, FragID: uint8(r.Range(2, 5)), FragCount: 2, Addr: pool[0], Data: payload(3)}
				emit("msg "+msgLine(m)+" "+env(), "s:badfrag")
				total++
			case c < 62: // remote reply
				res := "ok"
				switch r.Intn(12) {
				case 0:
					res = "err"
				case 1, 2:
					res = "block"
				case 3:
					res = "big"
				}
				l := r.Range(2, 8)
				if res == "big" {
					l = r.Range(8, 30)
				}
				emit(fmt.Sprintf("reply %d %s %s %s", r.Intn(dials+1), pool[r.Intn(len(pool))], vh.Hex(payload(l)), res), "s:reply-"+res)
				total++
			case c < 66:
				emit(fmt.Sprintf("unblock %d %s", r.Intn(dials+1), []string{"ok", "err"}[r.Intn(2)]), "s:unblock")
				total++
			case c < 84:
				emit(sleepLine(), "s:sleep")
				total++
			case c < 88:
				emit(fmt.Sprintf("readerr %d", r.Intn(dials+1)), "s:readerr")
				total++
			case c < 94: // the receive loop has looked the entry up, then other goroutines run
				m := &protocol.UDPMessage{SessionID: sid, PacketID: uint16(r.Range(1, 5)), FragCount: 1, Addr: pool[r.Intn(len(pool))], Data: payload(r.Range(2, 8))}
				if r.Chance(1, 3) { // second half of a fragmented datagram completes through the stale pointer
					m.FragCount, m.FragID = 2, 1
					first := *m
					first.FragID = 0
					first.Data = payload(3)
					emit("msg "+msgLine(&first)+" "+env(), "s:frag")
					total++
				}
				emit("hold "+msgLine(m), "s:hold")
				total++
				holding = true
				heldFor = 0
			case c < 96 && !lost:
				emit("connlost", "s:connlost-early")
				total++
				lost = true
			default:
				emit(sleepLine(), "s:sleep")
				total++
			}
		}
		if holding {
			emit("release "+env(), "s:release")
			total++
		}
		if r.Chance(1, 2) {
			emit(sleepLine(), "s:sleep")
			total++
		}
		emit("connlost", "s:connlost")
		total++
	}
}
