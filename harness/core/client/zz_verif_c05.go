//go:build verif

package client

import (
	"github.com/apernet/hysteria/core/v2/internal/protocol"
)

// C05 shim: a REAL client udpSessionManager over a fake udpIO whose SendMessage is `send` and
// whose ReceiveMessage blocks until the returned stop function is called. NewUDP() on the
// returned function yields real udpConn values (real SendBuf, real Send).

type verifC05IO struct {
	send func(buf []byte, m *protocol.UDPMessage) error
	stop chan struct{}
}

func (io *verifC05IO) ReceiveMessage() (*protocol.UDPMessage, error) {
	<-io.stop
	return nil, coreErrsClosed{}
}
func (io *verifC05IO) SendMessage(buf []byte, m *protocol.UDPMessage) error { return io.send(buf, m) }

type coreErrsClosed struct{}

func (coreErrsClosed) Error() string { return "verif: closed" }

// VerifC05Sessions returns a constructor of sessions (ids 1, 2, ...) and a stop function.
func VerifC05Sessions(send func(buf []byte, m *protocol.UDPMessage) error) (newUDP func() (HyUDPConn, uint32, error), stop func()) {
	io := &verifC05IO{send: send, stop: make(chan struct{})}
	sm := newUDPSessionManager(io)
	return func() (HyUDPConn, uint32, error) {
		c, err := sm.NewUDP()
		if err != nil {
			return nil, 0, err
		}
		return c, c.(*udpConn).ID, nil
	}, func() { close(io.stop) }
}
