//go:build verif

package client

import (
	"fmt"
	"runtime"
	"sync"

	"github.com/apernet/hysteria/core/v2/internal/protocol"
)

// C03 shim (client receive side): a REAL udpSessionManager over a fake udpIO; feed, the sessions'
// receive channels and closeCleanup are driven directly, each under recover().

type VerifC03Mgr struct {
	sm    *udpSessionManager
	io    *verifC05IO
	conns map[uint32]*udpConn
}

const VerifC03ChanSize = udpMessageChanSize

func VerifC03New() *VerifC03Mgr {
	io := &verifC05IO{send: func([]byte, *protocol.UDPMessage) error { return nil }, stop: make(chan struct{})}
	return &VerifC03Mgr{sm: newUDPSessionManager(io), io: io, conns: map[uint32]*udpConn{}}
}

func (v *VerifC03Mgr) New() (uint32, bool) {
	c, err := v.sm.NewUDP()
	if err != nil {
		return 0, false
	}
	u := c.(*udpConn)
	v.conns[u.ID] = u
	return u.ID, true
}

// Feed delivers one reply for session id to the real feed(); returns the panic text, if any, and
// whether the session's queue grew.
func (v *VerifC03Mgr) Feed(id uint32) (pmsg string, known, delivered bool) {
	defer func() {
		if r := recover(); r != nil {
			pmsg = fmt.Sprint(r)
		}
	}()
	before := -1
	v.sm.mutex.RLock()
	c, ok := v.sm.m[id]
	if ok {
		before = len(c.ReceiveCh)
	}
	v.sm.mutex.RUnlock()
	v.sm.feed(&protocol.UDPMessage{SessionID: id, Addr: "a:1", Data: []byte{1}})
	if !ok {
		return "", false, false
	}
	return "", true, len(c.ReceiveCh) > before
}

// Recv: one non-blocking receive on the session's channel: "msg", "empty", "eof", "nosuch".
func (v *VerifC03Mgr) Recv(id uint32) string {
	c, ok := v.conns[id]
	if !ok {
		return "nosuch"
	}
	select {
	case m, ok := <-c.ReceiveCh:
		if !ok || m == nil {
			return "eof"
		}
		return "msg"
	default:
		return "empty"
	}
}

func (v *VerifC03Mgr) Close(id uint32) (string, bool) {
	c, ok := v.conns[id]
	if !ok {
		return "", false
	}
	pmsg := ""
	func() {
		defer func() {
			if r := recover(); r != nil {
				pmsg = fmt.Sprint(r)
			}
		}()
		_ = c.Close()
	}()
	return pmsg, true
}

// CloseAll ends the receive loop (ReceiveMessage fails) and waits for closeCleanup.
func (v *VerifC03Mgr) CloseAll() {
	select {
	case <-v.io.stop:
	default:
		close(v.io.stop)
	}
	for {
		v.sm.mutex.RLock()
		done := v.sm.closed
		v.sm.mutex.RUnlock()
		if done {
			return
		}
		runtime.Gosched()
	}
}

// Race: `rounds` fresh sessions; for each, replies are fed from two goroutines while the application
// closes the session. Returns the first panic text seen in feed ("" = none) and how many sessions
// were created.
func (v *VerifC03Mgr) Race(rounds int) (pmsg string, made int) {
	var mu sync.Mutex
	for i := 0; i < rounds; i++ {
		c, err := v.sm.NewUDP()
		if err != nil {
			return pmsg, made
		}
		made++
		u := c.(*udpConn)
		var wg sync.WaitGroup
		start := make(chan struct{})
		for g := 0; g < 2; g++ {
			wg.Add(1)
			go func() {
				defer wg.Done()
				defer func() {
					if r := recover(); r != nil {
						mu.Lock()
						if pmsg == "" {
							pmsg = fmt.Sprint(r)
						}
						mu.Unlock()
					}
				}()
				<-start
				for k := 0; k < 64; k++ {
					v.sm.feed(&protocol.UDPMessage{SessionID: u.ID, Addr: "a:1", Data: []byte{1}})
				}
			}()
		}
		wg.Add(1)
		go func() {
			defer wg.Done()
			<-start
			for k := 0; k < i%7; k++ {
				runtime.Gosched()
			}
			_ = u.Close()
		}()
		close(start)
		wg.Wait()
		if pmsg != "" {
			return pmsg, made
		}
	}
	return pmsg, made
}
