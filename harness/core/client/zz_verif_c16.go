//go:build verif

package client

import coreErrs "github.com/apernet/hysteria/core/v2/errors"

// C16 shim: lets the harness wait until a killed connection has been NOTICED by the client
// (sequential histories compare exactly with the model, so a kill has to be settled before the
// next call). Nothing here changes behaviour; it only reads fields.

// VerifInner returns rc.client without taking rc.m: call it only from connectedFunc (which
// runs under rc.m) — that is where the harness learns which inner client a socket belongs to.
func VerifInner(c Client) Client {
	rc, ok := c.(*reconnectableClientImpl)
	if !ok {
		return nil
	}
	return rc.client
}

// VerifConnDone is closed once the inner client's QUIC connection is gone.
func VerifConnDone(c Client) <-chan struct{} {
	ci, ok := c.(*clientImpl)
	if !ok || ci.conn == nil {
		ch := make(chan struct{})
		close(ch)
		return ch
	}
	return ci.conn.Context().Done()
}

// VerifUDPClosed reports whether the inner client's UDP session manager has run its
// closeCleanup (after which UDP() answers ClosedError).
func VerifUDPClosed(c Client) bool {
	ci, ok := c.(*clientImpl)
	if !ok || ci.udpSM == nil {
		return true
	}
	ci.udpSM.mutex.RLock()
	defer ci.udpSM.mutex.RUnlock()
	return ci.udpSM.closed
}

// VerifWrapIsClosed reports whether wrapIfConnectionClosed classifies err as a lost connection
// (errors.ClosedError) — the classification clientDo acts on.
func VerifWrapIsClosed(err error) bool {
	_, ok := wrapIfConnectionClosed(err).(coreErrs.ClosedError)
	return ok
}
