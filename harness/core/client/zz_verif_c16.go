//go:build verif

package client

import (
	"net"

	coreErrs "github.com/apernet/hysteria/core/v2/errors"
)

// C16 shim: lets the harness wait until a killed connection has been NOTICED by the client
// (sequential histories compare exactly with the model, so a kill has to be settled before the
// next call). Nothing here changes behaviour; it only reads fields.

// VerifInner returns rc.client without taking rc.m: call it only from connectedFunc (which
// runs under rc.m) — that is where the harness learns which inner client a socket belongs to.
func VerifInner(c Client) Client {
	rc, ok := c.(*reconnectableClientImpl)
	if !ok {
		return nil
	}
	return verifUnwrap(rc.client)
}

// verifGated is a transparent Client around the inner client with two hooks in the caller's
// goroutine: before the inner TCP()/UDP() is entered and after it has returned. It lets the
// harness PARK one call between clientDo's two lock regions — the only way to make "an error from
// an already replaced client is processed late" a deterministic schedule instead of a race.
// clientDo / reconnect / Close run unchanged; rc.client simply holds this value.
type verifGated struct {
	Client
	before func(kind byte)
	after  func(kind byte, err error)
}

func (g *verifGated) TCP(addr string) (net.Conn, error) {
	g.before('T')
	c, err := g.Client.TCP(addr)
	g.after('T', err)
	return c, err
}

func (g *verifGated) UDP() (HyUDPConn, error) {
	g.before('U')
	c, err := g.Client.UDP()
	g.after('U', err)
	return c, err
}

func verifUnwrap(c Client) Client {
	if g, ok := c.(*verifGated); ok {
		return g.Client
	}
	return c
}

// VerifGate wraps the CURRENT inner client of rc. Call it only from connectedFunc (which runs
// under rc.m right after `rc.client, info, err = NewClient(config)`).
func VerifGate(c Client, before func(kind byte), after func(kind byte, err error)) {
	rc, ok := c.(*reconnectableClientImpl)
	if !ok || rc.client == nil {
		return
	}
	rc.client = &verifGated{Client: rc.client, before: before, after: after}
}

// VerifConnDone is closed once the inner client's QUIC connection is gone.
func VerifConnDone(c Client) <-chan struct{} {
	ci, ok := verifUnwrap(c).(*clientImpl)
	if !ok || ci.conn == nil {
		ch := make(chan struct{})
		close(ch)
		return ch
	}
	return ci.conn.Context().Done()
}

// VerifUDPClosed reports whether the inner client's UDP session manager has run its
// closeCleanup (after which UDP() answers ClosedError).
func VerifUDPClosed(c Client) bool {
	ci, ok := verifUnwrap(c).(*clientImpl)
	if !ok || ci.udpSM == nil {
		return true
	}
	ci.udpSM.mutex.RLock()
	defer ci.udpSM.mutex.RUnlock()
	return ci.udpSM.closed
}

// VerifWrapIsClosed reports whether wrapIfConnectionClosed classifies err as a lost connection
// (errors.ClosedError) — the classification clientDo acts on.
func VerifWrapIsClosed(err error) bool {
	_, ok := wrapIfConnectionClosed(err).(coreErrs.ClosedError)
	return ok
}
