//go:build verif

package client

// VerifC10VerifyAndFill runs the real (*Config).verifyAndFill (defaults + validation).
func (c *Config) VerifC10VerifyAndFill() error { return c.verifyAndFill() }
