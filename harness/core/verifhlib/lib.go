//go:build verif

// Package verifhlib is the shared support code of the correspondence harness.
// It lives under /verif and is compiled INTO the repository's modules with
// `go build -tags verif -overlay`; nothing of it exists in /repo.
package verifhlib

import (
	"bufio"
	"encoding/hex"
	"encoding/json"
	"fmt"
	"hash/fnv"
	"os"
	"sort"
	"strings"
)

// ---------------------------------------------------------------- PRNG

// RNG is splitmix64: every random choice of a run derives from one seed.
type RNG struct{ s uint64 }

func NewRNG(seed uint64) *RNG { return &RNG{s: seed} }

func (r *RNG) U64() uint64 {
	r.s += 0x9e3779b97f4a7c15
	z := r.s
	z = (z ^ (z >> 30)) * 0xbf58476d1ce4e5b9
	z = (z ^ (z >> 27)) * 0x94d049bb133111eb
	return z ^ (z >> 31)
}

// Intn returns a value in [0, n).
func (r *RNG) Intn(n int) int {
	if n <= 0 {
		return 0
	}
	return int(r.U64() % uint64(n))
}

// Range returns a value in [lo, hi].
func (r *RNG) Range(lo, hi int) int { return lo + r.Intn(hi-lo+1) }

func (r *RNG) Bool() bool { return r.U64()&1 == 1 }

// Chance is true with probability num/den.
func (r *RNG) Chance(num, den int) bool { return r.Intn(den) < num }

func (r *RNG) Bytes(n int) []byte {
	b := make([]byte, n)
	for i := range b {
		b[i] = byte(r.U64())
	}
	return b
}

// ASCII returns n printable lower-case letters/digits.
func (r *RNG) ASCII(n int) []byte {
	const cs = "abcdefghijklmnopqrstuvwxyz0123456789.-"
	b := make([]byte, n)
	for i := range b {
		b[i] = cs[r.Intn(len(cs))]
	}
	return b
}

func (r *RNG) Pick(xs []int) int { return xs[r.Intn(len(xs))] }

// Fork derives an independent generator (for per-case sub-seeds).
func (r *RNG) Fork() *RNG { return NewRNG(r.U64()) }

// Chunk splits b into random chunks (1-byte, small, large; empty chunks sprinkled in).
func (r *RNG) Chunk(b []byte) [][]byte {
	var out [][]byte
	mode := r.Intn(4)
	for len(b) > 0 {
		if r.Chance(1, 8) {
			out = append(out, []byte{})
		}
		var n int
		switch mode {
		case 0:
			n = 1
		case 1:
			n = r.Range(1, 3)
		case 2:
			n = r.Range(1, 64)
		default:
			n = len(b)
		}
		if n > len(b) {
			n = len(b)
		}
		c := make([]byte, n) // exact-size allocation: cap == len
		copy(c, b[:n])
		out = append(out, c)
		b = b[n:]
	}
	if r.Chance(1, 8) {
		out = append(out, []byte{})
	}
	return out
}

// ---------------------------------------------------------------- hex

// Hex renders bytes for the line protocol; "-" is the empty string.
func Hex(b []byte) string {
	if len(b) == 0 {
		return "-"
	}
	return hex.EncodeToString(b)
}

func UnHex(s string) []byte {
	if s == "-" {
		return nil
	}
	b, err := hex.DecodeString(s)
	if err != nil {
		panic("verifhlib: bad hex " + s)
	}
	return b
}

// Chunks renders a chunk list: "." for none, else comma separated.
func Chunks(cs [][]byte) string {
	if len(cs) == 0 {
		return "."
	}
	ss := make([]string, len(cs))
	for i, c := range cs {
		ss[i] = Hex(c)
	}
	return strings.Join(ss, ",")
}

func ParseChunks(s string) [][]byte {
	if s == "." {
		return nil
	}
	var out [][]byte
	for _, f := range strings.Split(s, ",") {
		b := UnHex(f)
		c := make([]byte, len(b))
		copy(c, b)
		out = append(out, c)
	}
	return out
}

// Exact returns a copy of b in an allocation of exactly len(b) (cap == len), so
// an over-read faults instead of reading slack.
func Exact(b []byte) []byte {
	c := make([]byte, len(b))
	copy(c, b)
	return c[:len(b):len(b)]
}

// ---------------------------------------------------------------- emitter

// Emitter writes the three streams of a correspondence run:
//
//	ops.txt    one operation per line (input to the Lean driver)
//	impl.txt   what the implementation did for that operation (same line number)
//	oracle.txt model-free property failures observed on the implementation
//
// and stats.json (distribution of what was generated).
type Emitter struct {
	dir      string
	ops      *bufio.Writer
	mops     *bufio.Writer
	impl     *bufio.Writer
	oracle   *bufio.Writer
	files    []*os.File
	n        int
	distinct map[uint64]struct{}
	nontriv  map[uint64]struct{}
	tags     map[string]int
	samples  []string
	extra    map[string]any
}

func NewEmitter(dir string) *Emitter {
	if err := os.MkdirAll(dir, 0o755); err != nil {
		panic(err)
	}
	e := &Emitter{dir: dir, distinct: map[uint64]struct{}{}, nontriv: map[uint64]struct{}{}, tags: map[string]int{}, extra: map[string]any{}}
	open := func(name string) *bufio.Writer {
		f, err := os.Create(dir + "/" + name)
		if err != nil {
			panic(err)
		}
		e.files = append(e.files, f)
		return bufio.NewWriterSize(f, 1<<20)
	}
	e.ops, e.mops, e.impl, e.oracle = open("ops.txt"), open("mops.txt"), open("impl.txt"), open("oracle.txt")
	return e
}

// Case records one operation and the implementation's canonical result.
// nontrivial says whether this case counts as non-trivial by the component's rule.
func (e *Emitter) Case(op, modelOp, implOut string, nontrivial bool, tags ...string) {
	if modelOp == "" {
		modelOp = op
	}
	if strings.ContainsAny(op, "\n\r") || strings.ContainsAny(implOut, "\n\r") || strings.ContainsAny(modelOp, "\n\r") {
		panic("verifhlib: newline in protocol line")
	}
	fmt.Fprintln(e.ops, op)
	fmt.Fprintln(e.mops, modelOp)
	fmt.Fprintln(e.impl, implOut)
	e.n++
	h := fnv.New64a()
	h.Write([]byte(op))
	k := h.Sum64()
	e.distinct[k] = struct{}{}
	if nontrivial {
		e.nontriv[k] = struct{}{}
	}
	for _, t := range tags {
		e.tags[t]++
	}
	if len(e.samples) < 6 && (e.n%97 == 1) {
		s := op + "  =>  " + implOut
		if len(s) > 400 {
			s = s[:400] + "…"
		}
		e.samples = append(e.samples, s)
	}
}

// N is the number of cases so far (the next case has 1-based line number N()+1).
func (e *Emitter) N() int { return e.n }

// OracleFail records a model-free property failure for the LAST emitted case.
func (e *Emitter) OracleFail(format string, a ...any) {
	fmt.Fprintf(e.oracle, "%d\t%s\n", e.n, strings.ReplaceAll(fmt.Sprintf(format, a...), "\n", " "))
}

func (e *Emitter) Tag(t string) { e.tags[t]++ }

func (e *Emitter) Extra(k string, v any) { e.extra[k] = v }

func (e *Emitter) Close() {
	e.ops.Flush()
	e.mops.Flush()
	e.impl.Flush()
	e.oracle.Flush()
	for _, f := range e.files {
		f.Close()
	}
	keys := make([]string, 0, len(e.tags))
	for k := range e.tags {
		keys = append(keys, k)
	}
	sort.Strings(keys)
	st := map[string]any{
		"cases":               e.n,
		"distinct":            len(e.distinct),
		"distinct_nontrivial": len(e.nontriv),
		"tags":                e.tags,
		"samples":             e.samples,
		"extra":               e.extra,
	}
	b, _ := json.MarshalIndent(st, "", " ")
	if err := os.WriteFile(e.dir+"/stats.json", b, 0o644); err != nil {
		panic(err)
	}
}

// Guard runs f and converts a panic into the outcome string "panic".
func Guard(f func() string) (out string) {
	defer func() {
		if r := recover(); r != nil {
			out = "panic"
		}
	}()
	return f()
}

// GuardMsg is Guard but also returns the panic message.
func GuardMsg(f func() string) (out string, msg string) {
	defer func() {
		if r := recover(); r != nil {
			out = "panic"
			msg = fmt.Sprint(r)
		}
	}()
	return f(), ""
}

// ---------------------------------------------------------------- components

// Component is one correspondence stream: Gen produces operation lines from the
// PRNG, Run executes ONE operation line against the real code and returns its
// canonical outcome.  Because everything travels through operation lines, a
// replay or a corpus file is run exactly like a generated case.
type Component interface {
	// Gen emits about n operations (more for stateful components that need sequences).
	Gen(r *RNG, n int, emit func(op string, tags ...string))
	// Run executes one operation on the implementation.
	Run(op string) Result
}

// Result of one operation on the implementation.
type Result struct {
	// Out is the canonical outcome line (compared with the model's line).
	Out string
	// ModelOp is the line handed to the Lean driver; empty means "the op itself".
	// It differs from the op when the implementation made a nondeterministic choice
	// (random padding, map iteration order, ...) that the model takes as an input.
	ModelOp string
	// NonTrivial: counts as a non-trivial case by the component's rule.
	NonTrivial bool
	// Oracle lists model-free property failures observed on the implementation.
	Oracle []string
}

var registry = map[string]func() Component{}

var constFns []func() map[string]any

// RegisterConsts adds constants (uint64/int/string values) read from the compiled
// packages; `<bin> consts` prints them and tools/run.py turns them into Hy/Gen/*.lean.
func RegisterConsts(f func() map[string]any) { constFns = append(constFns, f) }

func printConsts() {
	all := map[string]any{}
	for _, f := range constFns {
		for k, v := range f() {
			all[k] = v
		}
	}
	keys := make([]string, 0, len(all))
	for k := range all {
		keys = append(keys, k)
	}
	sort.Strings(keys)
	for _, k := range keys {
		switch v := all[k].(type) {
		case string:
			fmt.Printf("%s str %q\n", k, v)
		default:
			fmt.Printf("%s nat %v\n", k, v)
		}
	}
}

func Register(name string, mk func() Component) { registry[name] = mk }

// Main is the entry point shared by verif-core / verif-extras / verif-app:
//
//	<bin> <component> -seed N -n COUNT -out DIR [-ops FILE]
func Main() {
	if len(os.Args) < 2 {
		names := []string{}
		for k := range registry {
			names = append(names, k)
		}
		sort.Strings(names)
		fmt.Fprintln(os.Stderr, "components:", strings.Join(names, " "))
		os.Exit(2)
	}
	name := os.Args[1]
	if name == "consts" {
		printConsts()
		return
	}
	mk, ok := registry[name]
	if !ok {
		fmt.Fprintln(os.Stderr, "unknown component", name)
		os.Exit(2)
	}
	var seed uint64 = 1
	n := 1000
	out := ""
	opsIn := ""
	args := os.Args[2:]
	for i := 0; i+1 < len(args); i += 2 {
		switch args[i] {
		case "-seed":
			fmt.Sscan(args[i+1], &seed)
		case "-n":
			fmt.Sscan(args[i+1], &n)
		case "-out":
			out = args[i+1]
		case "-ops":
			opsIn = args[i+1]
		}
	}
	if out == "" {
		fmt.Fprintln(os.Stderr, "-out DIR required")
		os.Exit(2)
	}
	RunComponent(mk(), seed, n, out, opsIn)
}

// RunFromEnv runs a component configured by the environment (VERIF_SEED, VERIF_N,
// VERIF_OUT, VERIF_OPS). It is the entry point for harnesses that have to live in a
// `_test.go` file (in-package access, testing/synctest): the test function builds the
// component and calls RunFromEnv; tools/hv then diffs the files exactly as for a binary.
// It returns false when VERIF_OUT is not set (the test should then t.Skip()).
func RunFromEnv(c Component) bool {
	out := os.Getenv("VERIF_OUT")
	if out == "" {
		return false
	}
	var seed uint64 = 1
	n := 1000
	fmt.Sscan(os.Getenv("VERIF_SEED"), &seed)
	fmt.Sscan(os.Getenv("VERIF_N"), &n)
	RunComponent(c, seed, n, out, os.Getenv("VERIF_OPS"))
	return true
}

// RunComponent generates (or reads from opsIn) operation lines, runs each on the
// implementation and writes ops/mops/impl/oracle/stats into dir out.
func RunComponent(c Component, seed uint64, n int, out, opsIn string) {
	e := NewEmitter(out)
	runOne := func(op string, tags ...string) {
		var res Result
		func() {
			defer func() {
				if r := recover(); r != nil {
					msg := strings.ReplaceAll(fmt.Sprint(r), "\n", " ")
					res = Result{Out: "panic", Oracle: []string{"panic escaped the implementation: " + msg}}
				}
			}()
			res = c.Run(op)
		}()
		e.Case(op, res.ModelOp, res.Out, res.NonTrivial, tags...)
		if w := firstWord(res.Out); len(w) <= 16 && !strings.ContainsAny(w, "0123456789") {
			e.Tag("out:" + w)
		} else {
			e.Tag("out:(value)")
		}
		for _, o := range res.Oracle {
			e.OracleFail("%s", o)
		}
	}
	if opsIn != "" {
		f, err := os.Open(opsIn)
		if err != nil {
			fmt.Fprintln(os.Stderr, err)
			os.Exit(2)
		}
		sc := bufio.NewScanner(f)
		sc.Buffer(make([]byte, 1<<20), 1<<28)
		for sc.Scan() {
			line := sc.Text()
			if line == "" || strings.HasPrefix(line, "#") {
				continue
			}
			runOne(line, "corpus")
		}
		f.Close()
	} else {
		c.Gen(NewRNG(seed), n, runOne)
	}
	e.Close()
}

func firstWord(s string) string {
	if i := strings.IndexByte(s, ' '); i >= 0 {
		return s[:i]
	}
	return s
}
