//go:build verif

package verifhlib

import (
	"net/http"
	"net/url"

	"github.com/apernet/hysteria/core/v2/internal/protocol"
)

// C15: harnesses outside module core cannot import core/internal/protocol; these build the
// protocol's own auth request (POST https://hysteria/auth with the Hysteria-* headers) so that a
// raw HTTP/3 client can send several of them on one QUIC connection.

// StatusAuthOK is the status code of an accepted auth request.
const StatusAuthOK = protocol.StatusAuthOK

// NewAuthRequest returns the request a Hysteria client sends to authenticate.
func NewAuthRequest(auth string, rx uint64) *http.Request {
	req := &http.Request{
		Method: http.MethodPost,
		URL:    &url.URL{Scheme: "https", Host: protocol.URLHost, Path: protocol.URLPath},
		Header: make(http.Header),
	}
	protocol.AuthRequestToHeader(req.Header, protocol.AuthRequest{Auth: auth, Rx: rx})
	return req
}
