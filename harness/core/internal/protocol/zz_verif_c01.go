//go:build verif

package protocol

// VerifConstsC01 exposes the constants the C01/C02 theorems are stated over (the
// auth-request shape, the acceptance status code and the Hysteria-* header names);
// regenerated into lean/Hy/Gen/Core.lean on every run.
func VerifConstsC01() map[string]any {
	return map[string]any{
		"URLHost":                  URLHost,
		"URLPath":                  URLPath,
		"StatusAuthOK":             uint64(StatusAuthOK),
		"RequestHeaderAuth":        RequestHeaderAuth,
		"ResponseHeaderUDPEnabled": ResponseHeaderUDPEnabled,
		"CommonHeaderCCRX":         CommonHeaderCCRX,
		"CommonHeaderPadding":      CommonHeaderPadding,
	}
}
