//go:build verif

package protocol

// VerifConsts exposes the constants the Lean theorems are stated over
// (regenerated into lean/Hy/Gen/Consts.lean on every run).
func VerifConsts() map[string]uint64 {
	return map[string]uint64{
		"FrameTypeTCPRequest":    FrameTypeTCPRequest,
		"MaxAddressLength":       MaxAddressLength,
		"MaxMessageLength":       MaxMessageLength,
		"MaxPaddingLength":       MaxPaddingLength,
		"MaxDatagramFrameSize":   MaxDatagramFrameSize,
		"MaxUDPSize":             MaxUDPSize,
		"tcpRequestPaddingMin":   uint64(tcpRequestPadding.Min),
		"tcpRequestPaddingMax":   uint64(tcpRequestPadding.Max),
		"tcpResponsePaddingMin":  uint64(tcpResponsePadding.Min),
		"tcpResponsePaddingMax":  uint64(tcpResponsePadding.Max),
		"authRequestPaddingMin":  uint64(authRequestPadding.Min),
		"authRequestPaddingMax":  uint64(authRequestPadding.Max),
		"authResponsePaddingMin": uint64(authResponsePadding.Min),
		"authResponsePaddingMax": uint64(authResponsePadding.Max),
	}
}
