//go:build verif

package frag

// VerifState exposes the reassembly state of a Defragger (C05: compared with the
// model's state after every Feed).
func (d *Defragger) VerifState() (pktID uint16, slots int, count uint8, size int) {
	return d.pktID, len(d.frags), d.count, d.size
}
