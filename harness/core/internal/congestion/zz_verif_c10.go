//go:build verif

package congestion

// C10 observation hooks. quic-go has no getter for the congestion controller installed
// on a connection, so the check compiles an INSTRUMENTED COPY of utils.go (generated on
// every run from the current working tree by tools/c10hook; only these two calls are
// inserted):
//
//	verifTrace("<Func>", <params>...)                 first statement of UseBrutal/UseBBR/UseConfigured
//	conn.SetCongestionControl(verifInstalled(conn, X)) around every controller handed to quic-go
//
// Without the instrumented copy this file is inert.

import (
	"fmt"
	"strings"
	"sync"

	"github.com/apernet/hysteria/core/v2/internal/congestion/brutal"
	"github.com/apernet/quic-go"
	qcc "github.com/apernet/quic-go/congestion"
)

// VerifC10Event is one observation on one quic.Conn.
type VerifC10Event struct {
	Kind   string // "UseBrutal" | "UseBBR" | "UseConfigured" | "install"
	Local  string // conn.LocalAddr()
	Remote string // conn.RemoteAddr()
	Tx     uint64 // Use*: first uint64 argument; install: bps of a Brutal sender
	HasTx  bool
	Strs   []string // Use*: string-typed arguments in order (congestion type, BBR profile)
	CC     string   // install: "brutal" | "bbr" | Go type of anything else
}

var (
	verifC10Mu   sync.Mutex
	verifC10Hook func(VerifC10Event)
)

// VerifC10SetHook installs the observer (nil removes it).
func VerifC10SetHook(f func(VerifC10Event)) {
	verifC10Mu.Lock()
	verifC10Hook = f
	verifC10Mu.Unlock()
}

func verifC10Emit(ev VerifC10Event) {
	verifC10Mu.Lock()
	f := verifC10Hook
	verifC10Mu.Unlock()
	if f != nil {
		f(ev)
	}
}

func verifTrace(kind string, args ...any) {
	ev := VerifC10Event{Kind: kind}
	for _, a := range args {
		switch v := a.(type) {
		case *quic.Conn:
			if v != nil {
				ev.Local, ev.Remote = v.LocalAddr().String(), v.RemoteAddr().String()
			}
		case uint64:
			if !ev.HasTx {
				ev.Tx, ev.HasTx = v, true
			}
		case string:
			ev.Strs = append(ev.Strs, v)
		case bool:
		default:
			ev.Strs = append(ev.Strs, fmt.Sprint(v))
		}
	}
	verifC10Emit(ev)
}

func verifInstalled(conn *quic.Conn, cc qcc.CongestionControl) qcc.CongestionControl {
	ev := VerifC10Event{Kind: "install"}
	if conn != nil {
		ev.Local, ev.Remote = conn.LocalAddr().String(), conn.RemoteAddr().String()
	}
	switch v := cc.(type) {
	case *brutal.BrutalSender:
		ev.CC, ev.Tx, ev.HasTx = "brutal", v.VerifC10Bps(), true
	default:
		t := fmt.Sprintf("%T", cc)
		if strings.Contains(t, "bbr.") {
			t = "bbr"
		}
		ev.CC = t
	}
	verifC10Emit(ev)
	return cc
}
