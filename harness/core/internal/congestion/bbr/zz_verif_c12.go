//go:build verif

package bbr

// C12(a): in-package correspondence components for RingBuffer[T] and
// packetNumberIndexedQueue[T] (T = uint64).  They print the RAW representation
// (backing slice, headPos, tailPos, full / numberOfPresentEntries, firstPacket) after
// every operation, so the Lean model is compared on the exact state, not only on the
// values returned.  Model-free oracles: a plain Go slice used as the reference deque;
// census / front-present / slots-bound checks on the queue.

import (
	"fmt"
	"strconv"
	"strings"

	"github.com/apernet/quic-go/congestion"

	vh "github.com/apernet/hysteria/core/v2/verifhlib"
)

// VerifConstsC12 exposes the constants the C12 theorems are stated over.
func VerifConstsC12() map[string]any {
	m := map[string]any{
		"bbr_minBps":                         uint64(minBps),
		"bbr_initialCongestionWindowPackets": uint64(initialCongestionWindowPackets),
		"bbr_minCongestionWindowPackets":     uint64(minCongestionWindowPackets),
		"bbr_gainCycleLength":                uint64(gainCycleLength),
		"bbr_bandwidthWindowSize":            uint64(bandwidthWindowSize),
		"bbr_minRttExpiryNs":                 uint64(minRttExpiry),
		"bbr_probeRttTimeNs":                 uint64(probeRttTime),
		"bbr_defaultStartupFullLossCount":    uint64(defaultStartupFullLossCount),
		"bbr_connStateMapInit":               uint64(defaultConnectionStateMapQueueSize),
		"bbr_candidatesInit":                 uint64(defaultCandidatesBufferSize),
		"bbr_invalidPacketNumberNeg":         uint64(-invalidPacketNumber),
		"quic_MaxCongestionWindowPackets":    uint64(congestion.MaxCongestionWindowPackets),
		"quic_InitialPacketSize":             uint64(congestion.InitialPacketSize),
		"quic_MinInitialPacketSize":          uint64(congestion.MinInitialPacketSize),
		"quic_MaxPacketBufferSize":           uint64(congestion.MaxPacketBufferSize),
		"quic_MinPacingDelayNs":              uint64(congestion.MinPacingDelay),
		"quic_PacketsPerConnectionID":        uint64(congestion.PacketsPerConnectionID),
		"bbr_defaultRttNs":                   uint64(100 * 1000 * 1000),
	}
	// the PROBE_BW gain cycle, in hundredths (exact: the table holds 1.25, 0.75, 1.0 only)
	gs := make([]string, 0, len(pacingGain))
	for i, g := range pacingGain {
		h := uint64(g*100 + 0.5)
		m[fmt.Sprintf("bbr_pacingGain_%d", i)] = h
		gs = append(gs, strconv.FormatUint(h, 10))
	}
	m["bbr_pacingGainTable"] = strings.Join(gs, ",")
	for _, p := range []Profile{ProfileStandard, ProfileConservative, ProfileAggressive} {
		c := configForProfile(p)
		m["bbr_"+string(p)+"_highGain_milli"] = uint64(c.highGain*1000 + 0.5)
		m["bbr_"+string(p)+"_numStartupRtts"] = uint64(c.numStartupRtts)
		m["bbr_"+string(p)+"_bytesLostMultiplier"] = uint64(c.bytesLostMultiplier)
		m["bbr_"+string(p)+"_drainToTarget"] = b2u(c.drainToTarget)
		m["bbr_"+string(p)+"_detectOvershooting"] = b2u(c.detectOvershooting)
		m["bbr_"+string(p)+"_ackAggStartup"] = b2u(c.enableAckAggregationStartup)
		m["bbr_"+string(p)+"_expireAckAggStartup"] = b2u(c.expireAckAggregationStartup)
		m["bbr_"+string(p)+"_overestimateAvoidance"] = b2u(c.enableOverestimateAvoidance)
		m["bbr_"+string(p)+"_reduceExtraAcked"] = b2u(c.reduceExtraAckedOnBandwidthIncrease)
	}
	return m
}

func b2u(b bool) uint64 {
	if b {
		return 1
	}
	return 0
}

func b01(b bool) string {
	if b {
		return "1"
	}
	return "0"
}

// ---------------------------------------------------------------- ring

type verifRing struct {
	r    RingBuffer[uint64]
	spec []uint64 // reference deque (model-free oracle)
	dead bool     // spec no longer meaningful (grow() called outside its precondition / negative Offset)
	lim  orcLimit
}

// orcLimit: report the first failing op of a history (its prefix is the replay), at most 25 per run.
type orcLimit struct {
	failed   bool
	reported int
}

func (l *orcLimit) reset() { l.failed = false }

func (l *orcLimit) filter(orc []string) []string {
	if len(orc) == 0 || l.failed || l.reported >= 25 {
		return nil
	}
	l.failed = true
	l.reported++
	return orc
}

func NewVerifRing() vh.Component { return &verifRing{} }

func ringState(r *RingBuffer[uint64]) string {
	ss := make([]string, len(r.ring))
	for i, v := range r.ring {
		ss[i] = strconv.FormatUint(v, 10)
	}
	rs := "-"
	if len(ss) > 0 {
		rs = strings.Join(ss, ",")
	}
	return fmt.Sprintf("h=%d t=%d f=%s ring=%s", r.headPos, r.tailPos, b01(r.full), rs)
}

func (c *verifRing) Gen(r *vh.RNG, n int, emit func(op string, tags ...string)) {
	emitted := 0
	for emitted < n {
		size := r.Pick([]int{0, 0, 1, 2, 2, 3, 4, 5, 8})
		if r.Chance(1, 40) {
			size = 256
		}
		emit(fmt.Sprintf("reset %d", size), "reset")
		emitted++
		// shadow length so the generator can aim at boundaries
		ln, capa := 0, size
		steps := r.Range(5, 120)
		phase := r.Intn(3) // 0 grow-heavy, 1 balanced, 2 drain-heavy
		val := uint64(1)
		for k := 0; k < steps; k++ {
			x := r.Intn(100)
			pushP := []int{60, 42, 30}[phase]
			switch {
			case x < pushP:
				emit(fmt.Sprintf("push %d", val), "push")
				val++
				if ln == capa {
					if capa == 0 {
						capa = 1
					} else {
						capa *= 2
					}
				}
				ln++
			case x < pushP+25:
				if ln == 0 {
					emit("pop", "pop-empty")
				} else {
					emit("pop", "pop")
					ln--
				}
			case x < pushP+37:
				i := r.Range(-2, ln+1)
				if r.Chance(1, 3) {
					i = ln - 1
				}
				if r.Chance(1, 6) {
					i = ln
				}
				tag := "off-in"
				if i < 0 {
					tag = "off-neg"
				} else if i >= ln {
					tag = "off-oob"
				}
				emit(fmt.Sprintf("off %d", i), tag)
			case x < pushP+42:
				emit("front", "front")
			case x < pushP+47:
				emit("back", "back")
			case x < pushP+50:
				emit("len", "len")
			case x < pushP+52:
				emit("empty", "empty")
			case x < pushP+54:
				emit("clear", "clear")
				ln = 0
			default:
				if ln == capa {
					emit("grow", "grow-full")
					if capa == 0 {
						capa = 1
					} else {
						capa *= 2
					}
				} else if r.Chance(1, 4) {
					emit("grow", "grow-notfull")
					// contents are no longer a deque of the same elements; resync lengths
					ln = capa
					if capa == 0 {
						capa = 1
						ln = 0
					} else {
						capa *= 2
					}
				} else {
					emit("len", "len")
				}
			}
			emitted++
		}
	}
}

func (c *verifRing) Run(op string) vh.Result {
	f := strings.Fields(op)
	var orc []string
	fail := func(format string, a ...any) { orc = append(orc, fmt.Sprintf(format, a...)) }
	out := ""
	msg := ""
	nontriv := true
	if len(f) == 0 {
		return vh.Result{Out: "bad-op"}
	}
	switch f[0] {
	case "reset":
		n, _ := strconv.Atoi(f[1])
		c.r = RingBuffer[uint64]{}
		c.r.Init(n)
		c.spec = nil
		c.dead = false
		c.lim.reset()
		out = "ok"
		nontriv = false
	case "push":
		x, _ := strconv.ParseUint(f[1], 10, 64)
		out, msg = vh.GuardMsg(func() string { c.r.PushBack(x); return "ok" })
		c.spec = append(c.spec, x)
		if out == "panic" {
			fail("PushBack panicked: %s", msg)
		}
	case "pop":
		out, msg = vh.GuardMsg(func() string { return fmt.Sprintf("v %d", c.r.PopFront()) })
		if !c.dead {
			if len(c.spec) == 0 {
				if out != "panic" {
					fail("PopFront on an empty queue returned %s", out)
				}
			} else {
				if want := fmt.Sprintf("v %d", c.spec[0]); out != want {
					fail("PopFront = %s, reference deque says %s (%s)", out, want, msg)
				}
				c.spec = c.spec[1:]
			}
		}
	case "off":
		i, _ := strconv.Atoi(f[1])
		out, msg = vh.GuardMsg(func() string { return fmt.Sprintf("v %d", *c.r.Offset(i)) })
		if !c.dead && i >= 0 {
			if i >= len(c.spec) {
				if out != "panic" {
					fail("Offset(%d) on a queue of %d returned %s", i, len(c.spec), out)
				}
			} else if want := fmt.Sprintf("v %d", c.spec[i]); out != want {
				fail("Offset(%d) = %s, reference deque says %s (%s)", i, out, want, msg)
			}
		}
	case "front":
		out, msg = vh.GuardMsg(func() string { return fmt.Sprintf("v %d", *c.r.Front()) })
		if !c.dead {
			if len(c.spec) == 0 {
				if out != "panic" {
					fail("Front on an empty queue returned %s", out)
				}
			} else if want := fmt.Sprintf("v %d", c.spec[0]); out != want {
				fail("Front = %s, reference deque says %s (%s)", out, want, msg)
			}
		}
	case "back":
		out, msg = vh.GuardMsg(func() string { return fmt.Sprintf("v %d", *c.r.Back()) })
		if !c.dead {
			if len(c.spec) == 0 {
				if out != "panic" {
					fail("Back on an empty queue returned %s", out)
				}
			} else if want := fmt.Sprintf("v %d", c.spec[len(c.spec)-1]); out != want {
				fail("Back = %s, reference deque says %s (%s)", out, want, msg)
			}
		}
	case "clear":
		out, _ = vh.GuardMsg(func() string { c.r.Clear(); return "ok" })
		c.spec = nil
		c.dead = false
	case "len":
		out, _ = vh.GuardMsg(func() string { return fmt.Sprintf("n %d", c.r.Len()) })
		nontriv = false
	case "empty":
		out, _ = vh.GuardMsg(func() string { return "b " + b01(c.r.Empty()) })
		nontriv = false
	case "grow":
		inDomain := c.r.full || len(c.r.ring) == 0
		out, msg = vh.GuardMsg(func() string { c.r.grow(); return "ok" })
		if !inDomain {
			c.dead = true // grow() assumes a full queue; the reference deque no longer applies
		} else if out == "panic" {
			fail("grow panicked on a full queue: %s", msg)
		}
	default:
		return vh.Result{Out: "bad-op"}
	}
	if !c.dead {
		if c.r.Len() != len(c.spec) {
			fail("Len() = %d, reference deque holds %d", c.r.Len(), len(c.spec))
		}
		if c.r.Empty() != (len(c.spec) == 0) {
			fail("Empty() = %v, reference deque holds %d", c.r.Empty(), len(c.spec))
		}
	}
	return vh.Result{Out: out + " " + ringState(&c.r), NonTrivial: nontriv, Oracle: c.lim.filter(orc)}
}

// ---------------------------------------------------------------- pnq

type verifPnq struct {
	q        *packetNumberIndexedQueue[uint64]
	last     int64 // ghost: last packet number Emplace accepted
	haveLast bool
	lim      orcLimit
}

func NewVerifPnq() vh.Component { return &verifPnq{q: newPacketNumberIndexedQueue[uint64](0)} }

func pnqState(q *packetNumberIndexedQueue[uint64]) string {
	r := &q.entries
	ss := make([]string, len(r.ring))
	for i, v := range r.ring {
		ss[i] = b01(v.present) + ":" + strconv.FormatUint(v.entry, 10)
	}
	rs := "-"
	if len(ss) > 0 {
		rs = strings.Join(ss, ",")
	}
	return fmt.Sprintf("n=%d first=%d last=%d slots=%d h=%d t=%d f=%s ring=%s",
		q.numberOfPresentEntries, q.firstPacket, q.LastPacket(), q.EntrySlotsUsed(), r.headPos, r.tailPos, b01(r.full), rs)
}

func (c *verifPnq) Gen(r *vh.RNG, n int, emit func(op string, tags ...string)) {
	emitted := 0
	for emitted < n {
		size := r.Pick([]int{0, 0, 1, 2, 4, 4, 8})
		if r.Chance(1, 30) {
			size = 256
		}
		emit(fmt.Sprintf("reset %d", size), "reset")
		emitted++
		next := int64(r.Pick([]int{0, 0, 0, 1, 5}))
		lo := next // roughly the oldest number still interesting
		steps := r.Range(10, 200)
		val := uint64(100)
		for k := 0; k < steps; k++ {
			x := r.Intn(100)
			switch {
			case x < 40: // in-order emplace, sometimes with a gap
				gap := int64(0)
				tag := "emp"
				if r.Chance(1, 6) {
					gap = int64(r.Range(1, 4))
					tag = "emp-gap"
				}
				if r.Chance(1, 60) {
					gap = int64(r.Range(20, 300))
					tag = "emp-biggap"
				}
				next += gap
				emit(fmt.Sprintf("emp %d %d", next, val), tag)
				next++
				val++
			case x < 45: // out of order / duplicate
				pn := lo + int64(r.Intn(int(next-lo)+1))
				emit(fmt.Sprintf("emp %d %d", pn, val), "emp-ooo")
				val++
			case x < 47:
				emit(fmt.Sprintf("emp -1 %d", val), "emp-invalid")
			case x < 49:
				emit(fmt.Sprintf("emp %d nil", next), "emp-nil")
			case x < 52: // packet numbers restart (next QUIC number space)
				next = 0
				lo = 0
				emit(fmt.Sprintf("emp %d %d", next, val), "emp-restart")
				next++
				val++
			case x < 64:
				pn := lo - 2 + int64(r.Intn(int(next-lo)+4))
				emit(fmt.Sprintf("get %d", pn), "get")
			case x < 80:
				pn := lo - 1 + int64(r.Intn(int(next-lo)+3))
				if r.Chance(1, 3) {
					pn = lo
				}
				emit(fmt.Sprintf("rm %d", pn), "rm")
			default:
				var k2 int64
				switch r.Intn(6) {
				case 0:
					k2 = lo
				case 1:
					k2 = next + int64(r.Intn(3))
				case 2:
					k2 = int64(r.Range(-3, 1))
				default:
					k2 = lo + int64(r.Intn(int(next-lo)+1))
				}
				if k2 > lo {
					lo = k2
					if lo > next {
						lo = next
					}
				}
				emit(fmt.Sprintf("upto %d", k2), "upto")
			}
			emitted++
		}
	}
}

func (c *verifPnq) Run(op string) vh.Result {
	f := strings.Fields(op)
	var orc []string
	fail := func(format string, a ...any) { orc = append(orc, fmt.Sprintf(format, a...)) }
	if len(f) < 2 {
		return vh.Result{Out: "bad-op"}
	}
	out, msg := "", ""
	nontriv := true
	var upto int64
	isUpto := false
	switch f[0] {
	case "reset":
		n, _ := strconv.Atoi(f[1])
		c.q = newPacketNumberIndexedQueue[uint64](n)
		c.haveLast = false
		c.last = -1
		c.lim.reset()
		out = "ok"
		nontriv = false
	case "emp":
		pn, _ := strconv.ParseInt(f[1], 10, 64)
		var e *uint64
		if f[2] != "nil" {
			v, _ := strconv.ParseUint(f[2], 10, 64)
			e = &v
		}
		out, msg = vh.GuardMsg(func() string {
			if c.q.Emplace(congestion.PacketNumber(pn), e) {
				return "true"
			}
			return "false"
		})
		if out == "true" {
			c.last, c.haveLast = pn, true
		}
	case "get":
		pn, _ := strconv.ParseInt(f[1], 10, 64)
		out, msg = vh.GuardMsg(func() string {
			p := c.q.GetEntry(congestion.PacketNumber(pn))
			if p == nil {
				return "nil"
			}
			return fmt.Sprintf("v %d", *p)
		})
	case "rm":
		pn, _ := strconv.ParseInt(f[1], 10, 64)
		out, msg = vh.GuardMsg(func() string {
			got := "nil"
			ok := c.q.Remove(congestion.PacketNumber(pn), func(v uint64) { got = fmt.Sprintf("v %d", v) })
			if ok != (got != "nil") {
				return "inconsistent"
			}
			return got
		})
	case "upto":
		upto, _ = strconv.ParseInt(f[1], 10, 64)
		isUpto = true
		out, msg = vh.GuardMsg(func() string { c.q.RemoveUpTo(congestion.PacketNumber(upto)); return "ok" })
	default:
		return vh.Result{Out: "bad-op"}
	}
	if out == "panic" {
		fail("%s panicked: %s", f[0], msg)
	}
	if out == "inconsistent" {
		fail("Remove's result disagrees with whether the callback ran")
	}
	// model-free invariants of the queue
	q := c.q
	slots := q.EntrySlotsUsed()
	census := 0
	for i := 0; i < slots; i++ {
		if q.entries.Offset(i).present {
			census++
		}
	}
	if census != q.numberOfPresentEntries {
		fail("numberOfPresentEntries = %d but %d wrappers are present", q.numberOfPresentEntries, census)
	}
	if slots > 0 && !q.entries.Front().present {
		fail("front wrapper of a non-empty queue is not present")
	}
	if (slots == 0) != (q.firstPacket == invalidPacketNumber) {
		fail("firstPacket = %d with %d slots in use", q.firstPacket, slots)
	}
	if slots > 0 && c.haveLast && int64(slots) != c.last-int64(q.firstPacket)+1 {
		fail("slots in use %d != lastEmplaced %d - firstPacket %d + 1", slots, c.last, q.firstPacket)
	}
	if isUpto {
		bound := c.last - upto + 1
		if bound < 0 {
			bound = 0
		}
		if int64(slots) > bound {
			fail("after RemoveUpTo(%d): %d slots in use > lastEmplaced %d - %d + 1", upto, slots, c.last, upto)
		}
	}
	return vh.Result{Out: out + " " + pnqState(q), NonTrivial: nontriv, Oracle: c.lim.filter(orc)}
}
