//go:build verif

package bbr

// C12(b): the real bbrSender driven by QUIC-consistent traces.
//
// Run executes ONE op on the real sender:
//
//	new <profile> <mds> <now> <seed> <rtt0>      NewBbrSender + SetRTTStatsProvider (rtt0 = MinRTT already known, 0 = none)
//	sent <t> <inflight> <pn> <bytes> <0|1>       OnPacketSent (inflight AFTER adding the packet, as quic-go passes it)
//	mds <n>                                      SetMaxDatagramSize
//	ev <prior> <now> <rttMin> <acked> <lost>     OnCongestionEventEx; lists are pn:bytes,... or "-"
//	note <text>                                  simulator bookkeeping (no effect)
//	stall <text>                                 the simulator found the sender unable to make progress (oracle failure)
//
// and prints the complete control state afterwards.  For `ev` it also records what the
// sampler returned and every float-scaled value the code computed (ModelOp), so that the
// Lean model can replay the step: the sample is obtained by running the REAL
// bandwidthSampler.OnCongestionEvent on a copy of the sampler taken just before the call.
// Model-free oracles after every op: no panic, 4·mds ≤ GetCongestionWindow ≤ 20000·mds,
// bandwidthForPacer ≥ 65536, CanSend(0), slots in use ≤ max(0, largestSent − leastUnacked + 1),
// bytesInFlight ≥ 0, and "the pacer's announced wake-up time grants a full datagram".

import (
	"fmt"
	"math"
	"math/rand"
	"strconv"
	"strings"
	"time"

	"github.com/apernet/quic-go/congestion"
	"github.com/apernet/quic-go/monotime"

	vh "github.com/apernet/hysteria/core/v2/verifhlib"
)

type vClock struct{ now monotime.Time }

func (c *vClock) Now() monotime.Time { return c.now }

// vRTT is the RTTStatsProvider of the harness; UpdateRTT follows quic-go's RTTStats.
type vRTT struct {
	min, latest, smoothed, meanDev time.Duration
	has                            bool
}

func (r *vRTT) MinRTT() time.Duration        { return r.min }
func (r *vRTT) LatestRTT() time.Duration     { return r.latest }
func (r *vRTT) SmoothedRTT() time.Duration   { return r.smoothed }
func (r *vRTT) MeanDeviation() time.Duration { return r.meanDev }
func (r *vRTT) MaxAckDelay() time.Duration   { return 25 * time.Millisecond }
func (r *vRTT) PTO(includeMaxAckDelay bool) time.Duration {
	if !r.has {
		return 2 * 100 * time.Millisecond
	}
	p := r.smoothed + max(4*r.meanDev, time.Millisecond)
	if includeMaxAckDelay {
		p += r.MaxAckDelay()
	}
	return p
}

func (r *vRTT) UpdateRTT(sendDelta, ackDelay time.Duration) {
	if sendDelta <= 0 {
		return
	}
	if !r.has || r.min > sendDelta {
		r.min = sendDelta
	}
	sample := sendDelta
	if sample-r.min >= ackDelay {
		sample -= ackDelay
	}
	r.latest = sample
	if !r.has {
		r.has = true
		r.smoothed = sample
		r.meanDev = sample / 2
	} else {
		d := r.smoothed - sample
		if d < 0 {
			d = -d
		}
		r.meanDev = (3*r.meanDev + d) / 4
		r.smoothed = (7*r.smoothed + sample) / 8
	}
}
func (r *vRTT) SetMaxAckDelay(time.Duration) {}
func (r *vRTT) SetInitialRTT(time.Duration)  {}

type verifBbr struct {
	b    *bbrSender
	clk  *vClock
	rtt  *vRTT
	prof Profile
	// ghosts for the model-free oracles
	mds        int64 // the datagram size QUIC last announced
	maxPnSent  int64 // largest packet number ever passed to OnPacketSent
	leastUnack int64 // leastUnacked implied by the latest congestion event
	haveEvent  bool
	maxSlots   int
	maxA0      int
	sim        *bbrSim
	// reporting discipline: the first failing call of a trace is reported (with its history as
	// the replay); later calls of the same trace are a consequence.  At most 25 per run.
	traceFailed bool
	reported    int
	// coreOnly: component `bbrfat` — the control logic is replayed with RECORDED sampler outputs
	// (driver `bbrcore`) and the sampler state is not printed
	coreOnly bool
}

func NewVerifBbrFat() vh.Component { return &verifBbr{clk: &vClock{}, rtt: &vRTT{}, coreOnly: true} }

func (c *verifBbr) limit(orc []string) []string {
	if len(orc) == 0 {
		return nil
	}
	if c.traceFailed || c.reported >= 25 {
		return nil
	}
	c.traceFailed = true
	c.reported++
	return orc
}

func NewVerifBbr() vh.Component { return &verifBbr{clk: &vClock{}, rtt: &vRTT{}} }

func profOf(s string) (Profile, bool) {
	switch s {
	case "std":
		return ProfileStandard, true
	case "con":
		return ProfileConservative, true
	case "agg":
		return ProfileAggressive, true
	}
	return "", false
}

func (c *verifBbr) gainSym(g float64) string {
	switch g {
	case c.b.highGain:
		return "H"
	case c.b.drainGain:
		return "D"
	}
	return strconv.FormatInt(int64(math.Round(g*100)), 10)
}

func (c *verifBbr) state() string {
	b := c.b
	var sb strings.Builder
	// positional (compact: the quick tier compares ~600 000 of these lines); the legend is in
	// lean/Hy/Drv/Bbr.lean `showState`:
	//  mode rtc lastSent roundEnd lossEvents bytesLostRound minRtt minRttTs cwnd initCwnd maxCwnd minCwnd pacingRate
	//  pacingGain cycleOffset lastCycleStart | full roundsWoGain bwAtLastRound exitingQuiescence exitProbeRttAt
	//  probeRttRoundPassed lastSampleAppLimited hasNonAppLimitedSample recoveryState endRecoveryAt recoveryWindow
	//  detectOvershooting bytesLostOvershoot cwndForMinPacing maxCwndAdjusted mds bytesInFlight |
	//  GetCongestionWindow bandwidthForPacer CanSend(0)
	fmt.Fprintf(&sb, "%d %d %d %d %d %d %d %d %d %d %d %d %d %s %d %d",
		int(b.mode), uint64(b.roundTripCount), int64(b.lastSentPacket), int64(b.currentRoundTripEnd), b.numLossEventsInRound,
		int64(b.bytesLostInRound), int64(b.minRtt), int64(b.minRttTimestamp), int64(b.congestionWindow),
		int64(b.initialCongestionWindow), int64(b.maxCongestionWindow), int64(b.minCongestionWindow), uint64(b.pacingRate),
		c.gainSym(b.pacingGain), b.cycleCurrentOffset, int64(b.lastCycleStart))
	fmt.Fprintf(&sb, " | %s %d %d %s %d %s %s %s %d %d %d %s %d %d %d %d %d",
		b01(b.isAtFullBandwidth), b.roundsWithoutBandwidthGain, uint64(b.bandwidthAtLastRound), b01(b.exitingQuiescence),
		int64(b.exitProbeRttAt), b01(b.probeRttRoundPassed), b01(b.lastSampleIsAppLimited), b01(b.hasNoAppLimitedSample),
		int(b.recoveryState), int64(b.endRecoveryAt), int64(b.recoveryWindow), b01(b.detectOvershooting),
		int64(b.bytesLostWhileDetectingOvershooting), int64(b.cwndToCalculateMinPacingRate),
		int64(b.maxCongestionWindowWithNetworkParametersAdjusted), int64(b.maxDatagramSize), int64(b.bytesInFlight))
	fmt.Fprintf(&sb, " | %d %d %s", int64(b.GetCongestionWindow()), int64(b.bandwidthForPacer()), b01(b.CanSend(0)))
	if !c.coreOnly {
		sb.WriteString(" | ")
		sb.WriteString(c.samplerState())
	}
	return sb.String()
}

// samplerState prints the observable state of the bandwidth sampler, its ack-height tracker and the
// sender's max-bandwidth filter (positional; legend in lean/Hy/Drv/Bbr.lean `showSampler`).
func (c *verifBbr) samplerState() string {
	b := c.b
	sm := b.sampler
	var sb strings.Builder
	q := sm.connectionStateMap
	fmt.Fprintf(&sb, "%d %d %d %d %d %d %d %d %s %d %d %d %d %d %d %d %d %d",
		int64(sm.totalBytesSent), int64(sm.totalBytesAcked), int64(sm.totalBytesLost), int64(sm.totalBytesSentAtLastAckedPacket),
		int64(sm.lastAckedPacketSentTime), int64(sm.lastAckedPacketAckTime), int64(sm.lastSentPacket), int64(sm.lastAckedPacket),
		b01(sm.isAppLimited), int64(sm.endOfAppLimitedPhase), q.EntrySlotsUsed(), int64(q.firstPacket), q.numberOfPresentEntries,
		sm.a0Candidates.Len(),
		int64(sm.recentAckPoints.ackPoints[0].ackTime), int64(sm.recentAckPoints.ackPoints[0].totalBytesAcked),
		int64(sm.recentAckPoints.ackPoints[1].ackTime), int64(sm.recentAckPoints.ackPoints[1].totalBytesAcked))
	t := sm.maxAckHeightTracker
	fmt.Fprintf(&sb, " | %d %d %d %d", int64(t.aggregationEpochStartTime), int64(t.aggregationEpochBytes),
		int64(t.lastSentPacketNumberBeforeEpoch), t.numAckAggregationEpochs)
	for _, e := range t.maxAckHeightFilter.estimates {
		fmt.Fprintf(&sb, " %d %d %d %d %d", int64(e.sample.extraAcked), int64(e.sample.bytesAcked), int64(e.sample.timeDelta),
			uint64(e.sample.round), uint64(e.time))
	}
	fmt.Fprintf(&sb, " %d |", int64(sm.totalBytesAckedAfterLastAckEvent))
	for _, e := range b.maxBandwidth.estimates {
		fmt.Fprintf(&sb, " %d %d", uint64(e.sample), uint64(e.time))
	}
	return sb.String()
}

func sampleString(s *congestionEventSample) string {
	st := s.lastPacketSendState
	return fmt.Sprintf("%d %s %d %d %d %s %s %d %d %d %d", uint64(s.sampleMaxBandwidth), b01(s.sampleIsAppLimited), int64(s.sampleRtt),
		int64(s.sampleMaxInflight), int64(s.extraAcked), b01(st.isValid), b01(st.isAppLimited), int64(st.totalBytesSent),
		int64(st.totalBytesAcked), int64(st.totalBytesLost), int64(st.bytesInFlight))
}

func (c *verifBbr) sentOp(t, infl, pn, sz int64, r string) string {
	if c.coreOnly {
		return fmt.Sprintf("sent %d %d %d", infl, pn, c.bps())
	}
	return fmt.Sprintf("sent %d %d %d %d %s %d", t, infl, pn, sz, r, c.bps())
}

// bps is the float→int64 conversion inside bandwidthForPacer, recorded for the model.
func (c *verifBbr) bps() int64 {
	return int64(congestion.ByteCount(float64(c.b.PacingRate()) / float64(BytesPerSecond)))
}

func parsePkts(s string) (pns []int64, sizes []int64, ok bool) {
	if s == "-" {
		return nil, nil, true
	}
	for _, f := range strings.Split(s, ",") {
		a, b, found := strings.Cut(f, ":")
		if !found {
			return nil, nil, false
		}
		pn, e1 := strconv.ParseInt(a, 10, 64)
		sz, e2 := strconv.ParseInt(b, 10, 64)
		if e1 != nil || e2 != nil {
			return nil, nil, false
		}
		pns = append(pns, pn)
		sizes = append(sizes, sz)
	}
	return pns, sizes, true
}

// cloneSampler copies everything OnCongestionEvent mutates; the packet map is shared
// (OnCongestionEvent only reads it).
func cloneSampler(src *bandwidthSampler) *bandwidthSampler {
	d := *src
	d.a0Candidates.ring = append([]ackPoint(nil), src.a0Candidates.ring...)
	t := *src.maxAckHeightTracker
	f := *t.maxAckHeightFilter
	f.estimates = append([]entry[extraAckedEvent, roundTripCount](nil), f.estimates...)
	t.maxAckHeightFilter = &f
	d.maxAckHeightTracker = &t
	return &d
}

func (c *verifBbr) oracles(fail func(string, ...any)) {
	b := c.b
	gcw := int64(b.GetCongestionWindow())
	if gcw < 4*c.mds {
		fail("GetCongestionWindow %d < 4 x datagram size %d", gcw, c.mds)
	}
	if gcw > int64(congestion.MaxCongestionWindowPackets)*c.mds {
		fail("GetCongestionWindow %d > %d x datagram size %d", gcw, congestion.MaxCongestionWindowPackets, c.mds)
	}
	if bw := int64(b.bandwidthForPacer()); bw < 65536 {
		fail("bandwidthForPacer %d < 65536", bw)
	}
	if !b.CanSend(0) {
		fail("CanSend(0) is false: a sender with nothing in flight may not send (deadlock)")
	}
	if b.bytesInFlight < 0 {
		fail("bytesInFlight %d < 0", int64(b.bytesInFlight))
	}
	slots := b.sampler.connectionStateMap.EntrySlotsUsed()
	if slots > c.maxSlots {
		c.maxSlots = slots
	}
	if n := b.sampler.a0Candidates.Len(); n > c.maxA0 {
		c.maxA0 = n
	}
	if c.haveEvent {
		bound := c.maxPnSent - c.leastUnack + 1
		if bound < 0 {
			bound = 0
		}
		if int64(slots) > bound {
			fail("sampler keeps %d packet slots > largest sent %d - leastUnacked %d + 1", slots, c.maxPnSent, c.leastUnack)
		}
	}
	// pacer: the announced wake-up time must grant a full datagram (otherwise quic-go's send loop spins)
	if t := b.pacer.TimeUntilSend(); !t.IsZero() {
		if !b.HasPacingBudget(t) {
			fail("pacer: no budget for a datagram at its own TimeUntilSend() (bw=%d)", int64(b.bandwidthForPacer()))
		}
	}
}

func (c *verifBbr) Run(op string) vh.Result {
	f := strings.Fields(op)
	var orc []string
	fail := func(format string, a ...any) { orc = append(orc, fmt.Sprintf(format, a...)) }
	if len(f) == 0 {
		return vh.Result{Out: "bad-op"}
	}
	switch f[0] {
	case "note":
		return vh.Result{Out: "note"}
	case "stall":
		return vh.Result{Out: "note", Oracle: c.limit([]string{"simulated connection cannot make progress: " + strings.Join(f[1:], " ")})}
	case "new":
		if len(f) != 6 {
			return vh.Result{Out: "bad-op"}
		}
		p, ok := profOf(f[1])
		mds, e1 := strconv.ParseInt(f[2], 10, 64)
		now, e2 := strconv.ParseInt(f[3], 10, 64)
		seed, e3 := strconv.ParseInt(f[4], 10, 64)
		rtt0, e4 := strconv.ParseInt(f[5], 10, 64)
		if !ok || e1 != nil || e2 != nil || e3 != nil || e4 != nil {
			return vh.Result{Out: "bad-op"}
		}
		rand.Seed(seed) // enterProbeBandwidthMode draws from the global source (GODEBUG randseednop=0, see verifh/c12.go)
		c.prof = p
		c.clk.now = monotime.Time(now)
		c.rtt = &vRTT{}
		if rtt0 > 0 {
			c.rtt.UpdateRTT(time.Duration(rtt0), 0)
		}
		out, msg := vh.GuardMsg(func() string {
			c.b = NewBbrSender(c.clk, congestion.ByteCount(mds), p)
			c.b.SetRTTStatsProvider(c.rtt)
			return "ok"
		})
		if out == "panic" {
			return vh.Result{Out: "panic", Oracle: []string{"NewBbrSender panicked: " + msg}}
		}
		c.mds, c.maxPnSent, c.haveEvent, c.maxSlots, c.maxA0 = mds, -1, false, 0, 0
		c.traceFailed = false
		c.oracles(fail)
		return vh.Result{Out: "ok " + c.state(), ModelOp: fmt.Sprintf("new %s %d %d", f[1], mds, c.bps()), Oracle: c.limit(orc)}
	}
	if c.b == nil {
		return vh.Result{Out: "bad-op"}
	}
	b := c.b
	switch f[0] {
	case "sent":
		if len(f) != 6 {
			return vh.Result{Out: "bad-op"}
		}
		t, e1 := strconv.ParseInt(f[1], 10, 64)
		infl, e2 := strconv.ParseInt(f[2], 10, 64)
		pn, e3 := strconv.ParseInt(f[3], 10, 64)
		sz, e4 := strconv.ParseInt(f[4], 10, 64)
		if e1 != nil || e2 != nil || e3 != nil || e4 != nil {
			return vh.Result{Out: "bad-op"}
		}
		c.clk.now = monotime.Time(t)
		out, msg := vh.GuardMsg(func() string {
			b.OnPacketSent(monotime.Time(t), congestion.ByteCount(infl), congestion.PacketNumber(pn), congestion.ByteCount(sz), f[5] == "1")
			return "ok"
		})
		if out == "panic" {
			return vh.Result{Out: "panic", Oracle: []string{"OnPacketSent panicked: " + msg}}
		}
		if pn > c.maxPnSent {
			c.maxPnSent = pn
		}
		c.oracles(fail)
		return vh.Result{Out: "ok " + c.state(), ModelOp: c.sentOp(t, infl, pn, sz, f[5]), NonTrivial: true, Oracle: c.limit(orc)}
	case "mds":
		n, e1 := strconv.ParseInt(f[1], 10, 64)
		if e1 != nil {
			return vh.Result{Out: "bad-op"}
		}
		out, msg := vh.GuardMsg(func() string { b.SetMaxDatagramSize(congestion.ByteCount(n)); return "ok" })
		if out == "panic" {
			if n >= c.mds {
				fail("SetMaxDatagramSize(%d) panicked although the size did not decrease (was %d): %s", n, c.mds, msg)
			}
			return vh.Result{Out: "panic", ModelOp: fmt.Sprintf("mds %d 0", n), Oracle: c.limit(orc)}
		}
		c.mds = n
		c.oracles(fail)
		return vh.Result{Out: "ok " + c.state(), ModelOp: fmt.Sprintf("mds %d %d", n, c.bps()), NonTrivial: true, Oracle: c.limit(orc)}
	case "ev":
		if len(f) != 6 {
			return vh.Result{Out: "bad-op"}
		}
		prior, e1 := strconv.ParseInt(f[1], 10, 64)
		now, e2 := strconv.ParseInt(f[2], 10, 64)
		rttMin, e3 := strconv.ParseInt(f[3], 10, 64)
		apn, asz, ok1 := parsePkts(f[4])
		lpn, lsz, ok2 := parsePkts(f[5])
		if e1 != nil || e2 != nil || e3 != nil || !ok1 || !ok2 {
			return vh.Result{Out: "bad-op"}
		}
		c.clk.now = monotime.Time(now)
		c.rtt.min = time.Duration(rttMin)
		acked := make([]congestion.AckedPacketInfo, len(apn))
		for i := range apn {
			acked[i] = congestion.AckedPacketInfo{PacketNumber: congestion.PacketNumber(apn[i]), BytesAcked: congestion.ByteCount(asz[i])}
		}
		lost := make([]congestion.LostPacketInfo, len(lpn))
		for i := range lpn {
			lost[i] = congestion.LostPacketInfo{PacketNumber: congestion.PacketNumber(lpn[i]), BytesLost: congestion.ByteCount(lsz[i])}
		}
		// ---- before: what the code is about to read
		prePacingGain := b.pacingGain
		preBwAtLastRound := b.bandwidthAtLastRound
		preAcked, preLost := b.sampler.TotalBytesAcked(), b.sampler.TotalBytesLost()
		var sample congestionEventSample
		sampleOK := true
		appLimPre := false
		func() {
			defer func() {
				if r := recover(); r != nil {
					sampleOK = false
				}
			}()
			cl := cloneSampler(b.sampler)
			appLimPre = congestion.ByteCount(prior) < b.getTargetCongestionWindow(1)
			if appLimPre {
				cl.OnAppLimited()
			}
			rtc := b.roundTripCount
			if len(acked) != 0 && (b.currentRoundTripEnd == invalidPacketNumber || acked[len(acked)-1].PacketNumber > b.currentRoundTripEnd) {
				rtc++
			}
			sample = cl.OnCongestionEvent(monotime.Time(now), acked, lost, b.maxBandwidth.GetBest(), infBandwidth, rtc)
		}()
		// ---- the real call
		out, msg := vh.GuardMsg(func() string {
			b.OnCongestionEventEx(congestion.ByteCount(prior), monotime.Time(now), acked, lost)
			return "ok"
		})
		consistent := len(acked)+len(lost) > 0
		if out == "panic" {
			if consistent {
				fail("OnCongestionEventEx panicked on a QUIC-consistent event: %s", msg)
			}
		} else if !sampleOK {
			fail("bandwidthSampler.OnCongestionEvent panicked on a copy of the sampler but not in the sender")
		}
		// ---- after: values the code computed from the updated model
		srtt := "inf"
		if sample.sampleRtt != infRTT {
			srtt = strconv.FormatInt(int64(sample.sampleRtt), 10)
		}
		bw := b.bandwidthEstimate()
		growthTarget := Bandwidth(float64(preBwAtLastRound) * startupGrowthTarget)
		lossThresh := congestion.ByteCount(float64(sample.lastPacketSendState.bytesInFlight) * quicBbr2DefaultLossThreshold)
		targetRate := Bandwidth(b.pacingGain * float64(bw))
		// the random gain-cycle offset: the value of rand.Int31n() % 7 that explains the offset now in place
		rnd := b.cycleCurrentOffset
		if rnd >= 1 {
			rnd--
		}
		// positional: ev prior now acked lost | appLimitedPre rttMin tgtPacing tgt1 tgtCwnd growthTarget lossThresh targetRate rnd bps
		// (the sampler's outputs are no longer passed: the model computes them and they are compared below)
		mop := fmt.Sprintf("ev %d %d %s %s %s %d %d %d %d %d %d %d %d %d",
			prior, now, f[4], f[5], b01(appLimPre), rttMin,
			int64(b.getTargetCongestionWindow(prePacingGain)), int64(b.getTargetCongestionWindow(1)),
			int64(b.getTargetCongestionWindow(b.congestionWindowGain)),
			uint64(growthTarget), int64(lossThresh), uint64(targetRate), rnd, c.bps())
		if c.coreOnly {
			// ev prior now acked lost | sampleValid sampleAppLimited sendStateInflight sampleRtt bytesAcked bytesLost
			//   totalAcked excessAcked maxAckHeight bw rttMin tgtPacing tgt1 tgtCwnd growthTarget lossThresh targetRate rnd bps
			mop = fmt.Sprintf("ev %d %d %s %s %s %s %d %s %d %d %d %d %d %d %d %d %d %d %d %d %d %d %d",
				prior, now, f[4], f[5],
				b01(sample.lastPacketSendState.isValid), b01(sample.lastPacketSendState.isAppLimited),
				int64(sample.lastPacketSendState.bytesInFlight), srtt,
				int64(b.sampler.TotalBytesAcked()-preAcked), int64(b.sampler.TotalBytesLost()-preLost), int64(b.sampler.TotalBytesAcked()),
				int64(sample.extraAcked), int64(b.sampler.MaxAckHeight()), uint64(bw), rttMin,
				int64(b.getTargetCongestionWindow(prePacingGain)), int64(b.getTargetCongestionWindow(1)),
				int64(b.getTargetCongestionWindow(b.congestionWindowGain)),
				uint64(growthTarget), int64(lossThresh), uint64(targetRate), rnd, c.bps())
		}
		if out == "panic" {
			return vh.Result{Out: "panic", ModelOp: mop, Oracle: c.limit(orc)}
		}
		// leastUnacked as the sender derives it (bbr_sender.go:626-632)
		if len(apn) != 0 {
			c.leastUnack = apn[len(apn)-1] - 2
		} else {
			c.leastUnack = lpn[len(lpn)-1] + 1
		}
		c.haveEvent = true
		c.oracles(fail)
		outLine := fmt.Sprintf("ok %s | %s %d", c.state(), sampleString(&sample), c.leastUnack)
		if c.coreOnly {
			outLine = fmt.Sprintf("ok %s %d", c.state(), c.leastUnack)
		}
		return vh.Result{Out: outLine, ModelOp: mop, NonTrivial: true, Oracle: c.limit(orc)}
	}
	return vh.Result{Out: "bad-op"}
}
