//go:build verif

package bbr

// C12: bottleneck simulator producing QUIC-consistent traces for the real bbrSender.
//
// "QUIC-consistent" is pinned to quic-go's sent_packet_handler.go (fork pinned in core/go.mod):
//   * OnPacketSent(t, bytesInFlight AFTER adding an ack-eliciting packet, pn, size, ackEliciting);
//     ack-only packets are announced with isRetransmittable=false and do not count in flight;
//   * OnCongestionEventEx(priorInFlight, now, acked, lost) only with a non-empty acked ∪ lost,
//     acked/lost ascending, all of ONE packet-number space, priorInFlight = bytes in flight
//     before either list is removed; loss-timer expiry gives (prior, now, nil, lost);
//   * loss detection: packet threshold 3, time threshold 9/8·max(latest, smoothed) RTT; PTO probes
//     bypass the congestion window and the pacer;
//   * one controller serves the Initial, Handshake and 1-RTT spaces: packet numbers restart at 0
//     twice; dropping a space removes its bytes from flight without telling the controller;
//   * the controller may be installed late (hysteria calls SetCongestionControl after the
//     handshake): packets sent before are never announced, but their acks/losses are reported and
//     their bytes are part of priorInFlight;
//   * packet numbers are occasionally skipped in the 1-RTT space;
//   * MTU probes: a larger ack-eliciting packet; when it is acked SetMaxDatagramSize(bigger) follows.
//     The datagram size never decreases;
//   * the RTT statistics are updated before the event when the largest acked packet is newly acked.
//
// The generator runs in lock-step with Run (emit executes the op on the component's sender), so
// the closed loop uses the real CanSend / HasPacingBudget / TimeUntilSend decisions.

import (
	"container/heap"
	"fmt"
	"math"
	"sort"
	"strconv"
	"strings"
	"time"

	"github.com/apernet/quic-go/congestion"
	"github.com/apernet/quic-go/monotime"

	vh "github.com/apernet/hysteria/core/v2/verifhlib"
)

type simPkt struct {
	space    int
	pn       int64
	size     int64
	sendTime int64
	announced bool // OnPacketSent was called for it (false for packets sent before a late install)
	mtuProbe int64 // >0: acking it raises the datagram size to this value
}

const (
	evPktArrive = iota // packet reaches the receiver
	evAckTimer         // receiver's delayed-ack timer
	evAckArrive        // ACK frame reaches the sender
	evWake             // sender: pacing / application wake-up
	evLossTimer        // sender: loss-detection timer of a space
	evPTO              // sender: probe timeout
	evApp              // application produces data / toggles
	evMTU              // path MTU discovery sends a probe
	evDrop             // a packet-number space is discarded
)

type simEv struct {
	t    int64
	seq  int64
	kind int
	pkt  *simPkt
	ack  *simAck
	n    int64
}

type simAck struct {
	space   int
	largest int64
	pns     map[int64]bool
}

type evHeap []*simEv

func (h evHeap) Len() int { return len(h) }
func (h evHeap) Less(i, j int) bool {
	if h[i].t != h[j].t {
		return h[i].t < h[j].t
	}
	return h[i].seq < h[j].seq
}
func (h evHeap) Swap(i, j int) { h[i], h[j] = h[j], h[i] }
func (h *evHeap) Push(x any)   { *h = append(*h, x.(*simEv)) }
func (h *evHeap) Pop() any {
	o := *h
	n := len(o)
	x := o[n-1]
	*h = o[:n-1]
	return x
}

type simSpace struct {
	nextPn       int64
	outstanding  []*simPkt // ascending pn, ack-eliciting, still in QUIC's history
	largestAcked int64
	dropped      bool
	// receiver side
	rcvd        map[int64]bool
	rcvLargest  int64
	sinceAck    int
	ackTimerSet bool
	fresh       []int64 // received since the last ACK frame was sent
}

type bbrSim struct {
	r    *vh.RNG
	c    *verifBbr
	emit func(op string, tags ...string)
	ops  int
	h    evHeap
	seq  int64
	now  int64

	// path
	capBps     float64 // bytes per second
	rttNs      int64
	queueBytes float64
	linkFree   int64
	lossP      int // per 10000
	blackFrom  int64
	blackTo    int64
	jitterNs   int64
	ackEvery   int
	aggNs      int64 // acks are released at multiples of this
	ackLossP   int   // per 10000
	gapP       int   // per 10000: skip a packet number
	ackOnlyP   int   // per 10000: interleave an ack-only packet

	// sender / QUIC side
	spaces     [3]*simSpace
	cur        int
	inflight   int64
	mds        int64
	installed  bool
	appBytes   int64 // bytes the application still wants to send (-1: unlimited)
	appMode    int
	ptoCount   int
	probes     int
	wakeAt     int64
	lastAckEl  int64
	delivered  int64
	deliveredFrom int64
	clean      bool
	stalled    bool
	prof       string
	hsLeft     [2]int
	mtuPending int64
	appWaiting bool
	ptoGen     int64
	fat        bool
	prtt       bool  // loss-free low-capacity path with ack aggregation, long enough to enter and leave PROBE_RTT
	prttSince  int64 // sim time at which the sender was first seen in PROBE_RTT (0 = not in it)
	prttEntered bool
	prttMaxDwell int64
	quicSize   int64 // the size of full packets QUIC sends (>= the controller's datagram size)
	byAddr     int64
}

func (s *bbrSim) push(t int64, kind int, e *simEv) {
	if e == nil {
		e = &simEv{}
	}
	if t < s.now {
		t = s.now
	}
	e.t, e.kind = t, kind
	s.seq++
	e.seq = s.seq
	heap.Push(&s.h, e)
}

func (s *bbrSim) op(line string, tags ...string) {
	s.ops++
	s.emit(line, tags...)
}

func fmtPkts(ps []*simPkt) string {
	if len(ps) == 0 {
		return "-"
	}
	ss := make([]string, len(ps))
	for i, p := range ps {
		ss[i] = strconv.FormatInt(p.pn, 10) + ":" + strconv.FormatInt(p.size, 10)
	}
	return strings.Join(ss, ",")
}

func logUniform(r *vh.RNG, lo, hi float64) float64 {
	u := float64(r.Intn(1000000)) / 1000000
	return lo * math.Pow(hi/lo, u)
}

// newSim draws the scenario of one trace.
func newSim(r *vh.RNG, c *verifBbr, emit func(string, ...string), prof string, clean bool) *bbrSim {
	s := &bbrSim{r: r, c: c, emit: emit, prof: prof, clean: clean}
	for i := range s.spaces {
		s.spaces[i] = &simSpace{largestAcked: -1, rcvLargest: -1, rcvd: map[int64]bool{}}
	}
	s.capBps = logUniform(r, 30e3, 300e6)
	s.rttNs = int64(logUniform(r, 200e3, 400e6))
	bdp := s.capBps * float64(s.rttNs) / 1e9
	// utils.go seedPacketSize: the controller is seeded with min(QUIC's initial packet size, 1280 for a
	// UDP peer / 1200 otherwise); QUIC itself may already send larger packets (quicSize)
	s.quicSize = int64(r.Pick([]int{1200, 1252, 1280, 1280, 1280, 1350, 1452}))
	s.byAddr = int64(r.Pick([]int{1280, 1280, 1280, 1200}))
	s.mds = min(s.quicSize, s.byAddr)
	qf := []float64{0.05, 0.3, 1, 2, 8}[r.Intn(5)]
	s.queueBytes = math.Max(qf*bdp, 3*float64(s.mds))
	s.lossP = r.Pick([]int{0, 0, 0, 10, 100, 500, 3000})
	if r.Chance(1, 4) {
		s.blackFrom = int64(r.Range(5, 60)) * s.rttNs
		s.blackTo = s.blackFrom + int64(r.Range(1, 8))*s.rttNs
	}
	s.jitterNs = int64(r.Pick([]int{0, 0, 1, 10, 100})) * s.rttNs / 1000
	s.ackEvery = r.Pick([]int{1, 2, 2, 2, 10})
	if r.Chance(1, 3) {
		s.aggNs = int64(logUniform(r, 1e6, 50e6))
	}
	s.ackLossP = r.Pick([]int{0, 0, 100, 2000})
	s.gapP = r.Pick([]int{0, 0, 50, 1000})
	s.ackOnlyP = r.Pick([]int{0, 0, 300, 3000})
	s.appMode = r.Pick([]int{0, 0, 1, 2, 3})
	s.appBytes = -1
	if clean {
		s.capBps = logUniform(r, 200e3, 100e6)
		s.rttNs = int64(logUniform(r, 2e6, 200e6))
		bdp = s.capBps * float64(s.rttNs) / 1e9
		s.queueBytes = math.Max(8*bdp, 64*float64(s.mds))
		s.lossP, s.blackFrom, s.blackTo, s.jitterNs, s.ackEvery, s.aggNs, s.ackLossP = 0, 0, 0, 0, 2, 0, 0
		s.gapP, s.ackOnlyP, s.appMode = 0, 0, 0
	}
	return s
}

// ---------------------------------------------------------------- network

func (s *bbrSim) transmit(p *simPkt) {
	t := s.now
	free := s.linkFree
	if free < t {
		free = t
	}
	backlog := float64(free-t) * s.capBps / 1e9
	if backlog > 0 && backlog+float64(p.size) > s.queueBytes {
		return // tail drop
	}
	depart := free + int64(float64(p.size)*1e9/s.capBps)
	s.linkFree = depart
	if s.lossP > 0 && s.r.Intn(10000) < s.lossP {
		return
	}
	if s.blackTo > 0 && depart >= s.blackFrom && depart < s.blackTo {
		return
	}
	arr := depart + s.rttNs/2
	if s.jitterNs > 0 {
		arr += int64(s.r.Intn(int(s.jitterNs) + 1))
	}
	s.push(arr, evPktArrive, &simEv{pkt: p})
}

func (s *bbrSim) sendAck(sp int) {
	ss := s.spaces[sp]
	ss.sinceAck = 0
	ss.ackTimerSet = false
	if len(ss.rcvd) == 0 {
		return
	}
	if s.ackLossP > 0 && s.r.Intn(10000) < s.ackLossP {
		return
	}
	var a *simAck
	if s.ackLossP == 0 {
		// ACK frames are never lost: reporting every packet once is equivalent to QUIC's cumulative ranges
		a = &simAck{space: sp, largest: ss.rcvLargest, pns: make(map[int64]bool, len(ss.fresh))}
		for _, pn := range ss.fresh {
			a.pns[pn] = true
		}
	} else {
		a = &simAck{space: sp, largest: ss.rcvLargest, pns: make(map[int64]bool, len(ss.rcvd))}
		for pn := range ss.rcvd {
			a.pns[pn] = true
		}
	}
	ss.fresh = ss.fresh[:0]
	t := s.now + s.rttNs/2
	if s.aggNs > 0 {
		t = (t/s.aggNs + 1) * s.aggNs
	}
	s.push(t, evAckArrive, &simEv{ack: a})
}

// ---------------------------------------------------------------- sender side (what quic-go does)

func (s *bbrSim) lossDelay() int64 {
	rt := s.c.rtt
	m := rt.latest
	if rt.smoothed > m {
		m = rt.smoothed
	}
	if !rt.has {
		m = 100 * time.Millisecond // quic-go's default initial RTT
	}
	d := int64(float64(m) * 9 / 8)
	if d < int64(time.Millisecond) {
		d = int64(time.Millisecond)
	}
	return d
}

// detectLost mirrors detectLostPackets for one space; returns the lost packets (ascending).
func (s *bbrSim) detectLost(sp int) []*simPkt {
	ss := s.spaces[sp]
	delay := s.lossDelay()
	lostBefore := s.now - delay
	var lost []*simPkt
	var keep []*simPkt
	var nextTimer int64
	out := ss.outstanding
	i := 0
	for ; i < len(out) && out[i].pn <= ss.largestAcked; i++ {
		p := out[i]
		if p.sendTime <= lostBefore || ss.largestAcked-p.pn >= 3 {
			lost = append(lost, p)
			continue
		}
		if nextTimer == 0 {
			nextTimer = p.sendTime + delay
		}
		keep = append(keep, p)
	}
	copy(out[i-len(keep):i], keep)
	ss.outstanding = out[i-len(keep):]
	if nextTimer != 0 {
		s.push(nextTimer, evLossTimer, &simEv{n: int64(sp)})
	}
	return lost
}

func (s *bbrSim) congEvent(acked, lost []*simPkt, prior int64, tag string) {
	for _, p := range acked {
		s.inflight -= p.size
	}
	for _, p := range lost {
		s.inflight -= p.size
	}
	if len(acked)+len(lost) == 0 || !s.installed {
		return
	}
	s.op(fmt.Sprintf("ev %d %d %d %s %s", prior, s.now, int64(s.c.rtt.min), fmtPkts(acked), fmtPkts(lost)), tag)
	s.watchProbeRtt()
}

// watchProbeRtt: model-free STALL oracle (a).  On a loss-free fixed-capacity path with acks flowing the
// sender must leave PROBE_RTT again: probeRttTime (200 ms) plus a round trip, with a generous factor.
// (Performance clause of the property: supporting evidence + stall oracle, no theorem.)
func (s *bbrSim) watchProbeRtt() {
	if s.c.b == nil {
		return
	}
	if s.c.b.mode != bbrModeProbeRtt {
		s.prttSince = 0
		return
	}
	if s.prttSince == 0 {
		s.prttSince = s.now
		s.prttEntered = true
		return
	}
	dwell := s.now - s.prttSince
	if dwell > s.prttMaxDwell {
		s.prttMaxDwell = dwell
	}
	bound := 10 * (int64(probeRttTime) + s.rttNs + s.aggNs + int64(25*time.Millisecond))
	if s.clean && !s.stalled && dwell > bound {
		s.stalled = true
		s.op(fmt.Sprintf("stall t=%d profile=%s in PROBE_RTT for %d ms on a loss-free path (bound %d ms): acks keep arriving but the sender never leaves PROBE_RTT",
			s.now, s.prof, dwell/1000000, bound/1000000), "stall-probertt")
	}
}

func (s *bbrSim) onAck(a *simAck) {
	ss := s.spaces[a.space]
	if ss.dropped {
		return
	}
	var acked []*simPkt
	// only the prefix up to the largest acknowledged number can be affected
	out := ss.outstanding
	var keep []*simPkt
	i := 0
	for ; i < len(out) && out[i].pn <= a.largest; i++ {
		p := out[i]
		if a.pns[p.pn] {
			acked = append(acked, p)
			delete(ss.rcvd, p.pn) // ack of ack: the receiver stops reporting it
		} else {
			keep = append(keep, p)
		}
	}
	copy(out[i-len(keep):i], keep)
	ss.outstanding = out[i-len(keep):]
	if len(acked) == 0 {
		return
	}
	prior := s.inflight
	// RTT update: largest acked newly acknowledged
	if last := acked[len(acked)-1]; last.pn == a.largest {
		s.c.rtt.UpdateRTT(time.Duration(s.now-last.sendTime), 0)
	}
	if a.largest > ss.largestAcked {
		ss.largestAcked = a.largest
	}
	lost := s.detectLost(a.space)
	tag := "ev-ack"
	if len(lost) > 0 {
		tag = "ev-ack+loss"
	}
	for _, p := range acked {
		if a.space == 2 {
			s.delivered += p.size
		}
	}
	s.congEvent(acked, lost, prior, tag)
	s.ptoCount = 0
	s.probes = 0
	for _, p := range acked {
		if p.mtuProbe > s.mds && s.installed {
			s.mds, s.quicSize = p.mtuProbe, p.mtuProbe
			s.op(fmt.Sprintf("mds %d", s.mds), "mds-raise")
		} else if p.mtuProbe > s.mds {
			// raised before the controller exists: it will be seeded with min(quicSize, byAddr)
			s.quicSize = p.mtuProbe
		}
	}
	// handshake progress: the first ack in a space opens the next one
	if a.space == s.cur && s.cur < 2 {
		s.cur++
		if s.cur == 1 {
			s.dropSpace(0) // a client drops Initial keys when it sends its first Handshake packet
		} else {
			s.push(s.now+int64(s.r.Range(0, 3))*s.rttNs, evDrop, &simEv{n: 1})
		}
	}
	s.armPTO()
	s.trySend()
}

func (s *bbrSim) dropSpace(sp int) {
	ss := s.spaces[sp]
	if ss.dropped {
		return
	}
	ss.dropped = true
	for _, p := range ss.outstanding {
		s.inflight -= p.size // removeFromBytesInFlight; the controller is not told
	}
	ss.outstanding = nil
}

func (s *bbrSim) armPTO() {
	if s.inflight <= 0 {
		return
	}
	d := int64(s.c.rtt.PTO(true)) << uint(min(s.ptoCount, 6))
	s.ptoGen++
	s.push(s.lastAckEl+d, evPTO, &simEv{n: s.ptoGen})
}

func (s *bbrSim) sendOne(size int64, ackEliciting bool, probe int64) {
	sp := s.cur
	ss := s.spaces[sp]
	if sp == 2 && s.gapP > 0 && s.r.Intn(10000) < s.gapP {
		ss.nextPn++ // skipped packet number
	}
	pn := ss.nextPn
	ss.nextPn++
	p := &simPkt{space: sp, pn: pn, size: size, sendTime: s.now, announced: s.installed, mtuProbe: probe}
	if ackEliciting {
		s.inflight += size
		s.lastAckEl = s.now
		ss.outstanding = append(ss.outstanding, p)
	}
	if s.installed {
		r := "0"
		tag := "sent-ackonly"
		if ackEliciting {
			r = "1"
			tag = "sent"
			if probe > 0 {
				tag = "sent-mtuprobe"
			}
		}
		s.op(fmt.Sprintf("sent %d %d %d %d %s", s.now, s.inflight, pn, size, r), tag)
	}
	if ackEliciting {
		s.transmit(p)
		if s.appBytes > 0 {
			s.appBytes -= size
			if s.appBytes < 0 {
				s.appBytes = 0
			}
		}
	}
}

func (s *bbrSim) hasData() bool {
	if s.cur < 2 {
		return s.hsLeft[s.cur] > 0
	}
	return s.appBytes != 0 && !s.appWaiting
}

// trySend is quic-go's send loop for the current instant.
func (s *bbrSim) trySend() {
	before := s.lastAckEl
	s.trySend1()
	if s.lastAckEl != before || s.ptoGen == 0 {
		s.armPTO()
	}
}

func (s *bbrSim) trySend1() {
	if s.stalled {
		return
	}
	b := s.c.b
	for burst := 0; burst < 64; burst++ {
		if s.probes > 0 { // PTO probes bypass window and pacer
			s.probes--
			s.sendOne(s.pktSize(), true, 0)
			continue
		}
		if !s.hasData() {
			return
		}
		if s.installed {
			if !b.CanSend(congestion.ByteCount(s.inflight)) {
				return // congestion limited: an ack (or the PTO) will restart the loop
			}
			if !b.HasPacingBudget(monotime.Time(s.now)) {
				t := int64(b.TimeUntilSend(congestion.ByteCount(s.inflight)))
				if t <= s.now {
					// quic-go would spin here; advance by the pacing granularity and record it
					t = s.now + int64(congestion.MinPacingDelay)
				}
				if s.wakeAt <= s.now || t < s.wakeAt {
					s.wakeAt = t
					s.push(t, evWake, nil)
				}
				return
			}
		} else if s.inflight > 40*s.mds {
			return // the pre-install controller (Reno) is not modelled: a fixed window
		}
		if s.cur < 2 {
			s.hsLeft[s.cur]--
		}
		if s.mtuPending > s.mds && s.cur == 2 {
			p := s.mtuPending
			s.mtuPending = 0
			s.sendOne(p, true, p)
			continue
		}
		s.sendOne(s.pktSize(), true, 0)
		if s.ackOnlyP > 0 && s.r.Intn(10000) < s.ackOnlyP {
			s.sendOne(int64(s.r.Range(25, 60)), false, 0)
		}
	}
	// burst limit of the loop reached: continue right away
	s.push(s.now, evWake, nil)
}

func (s *bbrSim) pktSize() int64 {
	full := max(s.quicSize, s.mds)
	if s.r.Chance(1, 12) {
		return int64(s.r.Range(40, int(full)))
	}
	return full
}

// ---------------------------------------------------------------- one trace

func (s *bbrSim) run(budget int) {
	r := s.r
	seed := int64(r.Intn(1 << 30))
	// installation: at birth with all three spaces, or late (after the handshake) in the 1-RTT space
	late := r.Chance(1, 2) && !s.clean
	if s.clean {
		late = false
	}
	s.hsLeft = [2]int{r.Range(1, 4), r.Range(1, 6)}
	install := func(rtt0 int64) {
		s.installed = true
		s.mds = min(s.quicSize, s.byAddr)
		s.op(fmt.Sprintf("new %s %d %d %d %d", s.prof, s.mds, s.now, seed, rtt0), "new-"+s.prof)
	}
	// the harness needs an RTT provider from the first moment (loss delay); the sender gets it at install
	s.c.rtt = &vRTT{}
	s.now = int64(r.Range(1, 1000)) * 1000000
	if !late {
		if (r.Chance(1, 3) && !s.clean) || s.fat {
			s.cur = 2 // server-side / resumed: only the 1-RTT space is seen
		}
		install(0)
	} else {
		// hysteria installs the controller after the handshake (client: after auth; server: in the auth handler)
		s.cur = 2
		s.spaces[0].dropped, s.spaces[1].dropped = true, true
		s.spaces[2].nextPn = int64(r.Range(0, 40))
	}
	// application behaviour
	switch s.appMode {
	case 1: // on/off
		s.appBytes = int64(r.Range(5, 400)) * s.mds
	case 2: // rate limited below capacity
		s.appBytes = 0
		s.push(s.now, evApp, nil)
	case 3: // tiny writes
		s.appBytes = int64(r.Range(1, 5)) * s.mds
	}
	if !s.clean && r.Chance(1, 2) {
		s.push(s.now+int64(r.Range(3, 80))*s.rttNs, evMTU, &simEv{n: int64(r.Pick([]int{1350, 1400, 1452}))})
		if r.Chance(1, 2) {
			s.push(s.now+int64(r.Range(90, 300))*s.rttNs, evMTU, &simEv{n: 1452})
		}
	}
	lateAfter := r.Range(3, 60) // late install after that many packets were sent
	sentBefore := 0
	s.deliveredFrom = -1
	start := s.now
	s.trySend()
	s.armPTO()
	idleGuard := 0
	for s.ops < budget && len(s.h) > 0 {
		e := heap.Pop(&s.h).(*simEv)
		s.now = e.t
		if s.clean && s.deliveredFrom < 0 && s.now-start > 20*s.rttNs+int64(2e9*float64(s.mds)/s.capBps) {
			s.deliveredFrom = s.now
			s.delivered = 0
		}
		switch e.kind {
		case evPktArrive:
			ss := s.spaces[e.pkt.space]
			ss.rcvd[e.pkt.pn] = true
			ss.fresh = append(ss.fresh, e.pkt.pn)
			if e.pkt.pn > ss.rcvLargest {
				ss.rcvLargest = e.pkt.pn
			}
			ss.sinceAck++
			if ss.sinceAck >= s.ackEvery || e.pkt.space < 2 {
				s.sendAck(e.pkt.space)
			} else if !ss.ackTimerSet {
				ss.ackTimerSet = true
				s.push(s.now+int64(25*time.Millisecond), evAckTimer, &simEv{n: int64(e.pkt.space)})
			}
		case evAckTimer:
			if s.spaces[e.n].ackTimerSet {
				s.sendAck(int(e.n))
			}
		case evAckArrive:
			if !s.installed && late {
				sentBefore = s.countSent()
				if sentBefore >= lateAfter {
					install(int64(s.c.rtt.min))
				}
			}
			s.onAck(e.ack)
		case evWake:
			s.trySend()
		case evLossTimer:
			sp := int(e.n)
			if s.spaces[sp].dropped {
				break
			}
			prior := s.inflight
			lost := s.detectLost(sp)
			s.congEvent(nil, lost, prior, "ev-losstimer")
			s.trySend()
		case evPTO:
			if e.n != s.ptoGen || s.inflight <= 0 {
				break // superseded
			}
			s.ptoCount++
			s.probes = 1 + s.r.Intn(2)
			s.trySend()
			s.armPTO()
		case evApp:
			switch s.appMode {
			case 2:
				s.appBytes += int64(float64(s.rttNs) / 1e9 * s.capBps * float64(s.r.Range(5, 60)) / 100)
				s.push(s.now+s.rttNs, evApp, nil)
			default:
				s.appBytes = int64(s.r.Range(1, 300)) * s.mds
				s.appWaiting = false
			}
			s.trySend()
		case evMTU:
			if e.n > s.mds && e.n > s.quicSize {
				s.mtuPending = e.n
			}
		case evDrop:
			s.dropSpace(int(e.n))
		}
		// application refill for on/off modes
		if (s.appMode == 1 || s.appMode == 3) && s.appBytes == 0 && s.cur == 2 && !s.appWaiting {
			s.appWaiting = true
			s.push(s.now+int64(s.r.Range(1, 30))*s.rttNs/2, evApp, nil)
		}
		// deadlock watch: data to send, nothing in flight, nothing scheduled that could change it
		if s.installed && s.hasData() && s.inflight == 0 && !s.pendingProgress() {
			idleGuard++
			if idleGuard > 3 {
				s.op(fmt.Sprintf("stall t=%d profile=%s cwnd=%d inflight=0", s.now, s.prof, int64(s.c.b.GetCongestionWindow())), "stall")
				return
			}
			s.trySend()
		} else {
			idleGuard = 0
		}
	}
	if s.prttEntered {
		s.op(fmt.Sprintf("note probe-rtt entered profile=%s max-dwell=%dms sim-seconds=%.1f", s.prof, s.prttMaxDwell/1000000, float64(s.now-start)/1e9), "probertt-entered")
	}
	if s.fat {
		s.op(fmt.Sprintf("note fat-path profile=%s cwnd=%d max=%d", s.prof, int64(s.c.b.GetCongestionWindow()), int64(s.c.b.maxCongestionWindow)), "fat-trace")
	} else if s.clean && s.deliveredFrom >= 0 && s.now > s.deliveredFrom {
		util := float64(s.delivered) / (float64(s.now-s.deliveredFrom) / 1e9 * s.capBps)
		bucket := int(util * 10)
		if bucket > 10 {
			bucket = 10
		}
		s.op(fmt.Sprintf("note clean-path profile=%s capacity=%.0fB/s rtt=%.1fms delivered/capacity=%.3f", s.prof, s.capBps, float64(s.rttNs)/1e6, util),
			fmt.Sprintf("util:%s:%02d0%%", s.prof, bucket))
		// STALL oracle (b): over a long window after start-up a loss-free path must carry well above 30 % of capacity
		window := s.now - s.deliveredFrom
		if !s.stalled && window > 60*s.rttNs+60*s.aggNs && window > int64(2*time.Second) && util < 0.3 {
			s.op(fmt.Sprintf("stall profile=%s delivered/capacity=%.3f < 0.3 over %d ms on a loss-free %.0f B/s path", s.prof, util, window/1000000, s.capBps), "stall-goodput")
		}
	}
}

func (s *bbrSim) countSent() int {
	n := 0
	for _, ss := range s.spaces {
		n += int(ss.nextPn)
	}
	return n
}

// pendingProgress: is any event queued that can lead to a send (wake-up, ack, app, PTO)?
func (s *bbrSim) pendingProgress() bool {
	for _, e := range s.h {
		switch e.kind {
		case evWake, evAckArrive, evPktArrive, evApp, evPTO, evLossTimer, evAckTimer:
			return true
		}
	}
	return false
}

// ---------------------------------------------------------------- generator

func (c *verifBbr) Gen(r *vh.RNG, n int, emit func(op string, tags ...string)) {
	if c.coreOnly {
		c.genFat(r, n, emit)
		return
	}
	// n = number of ops; traces of ~2000 ops, every 6th trace is a clean fixed-capacity path
	profs := []string{"std", "con", "agg"}
	done := 0
	k := 0
	for done < n {
		per := 2000
		if n-done < per {
			per = n - done
		}
		if per < 50 {
			break
		}
		prof := profs[k%3]
		clean := (k/3)%4 == 3
		if clean {
			per = min(3*per, max(n-done, 50)) // clean fixed-capacity paths run longer (utilisation after start-up)
		}
		// every 25th trace: a loss-free slow path with ack aggregation, run for > 12 simulated seconds so that
		// min_rtt expires (10 s) and PROBE_RTT is entered and must be left again
		prtt := k%25 == 5
		if prtt {
			clean, per = true, min(9000, max(n-done, 50))
		}
		s := newSim(r.Fork(), c, emit, prof, clean)
		if prtt {
			s.prtt = true
			s.capBps = logUniform(s.r, 200e3, 500e3)
			s.rttNs = int64(logUniform(s.r, 15e6, 50e6))
			if k%50 == 5 {
				// delayed acks: one ACK frame (25 ms timer) covers the whole 4-packet PROBE_RTT flight
				s.ackEvery = 16
			} else {
				s.aggNs = int64(logUniform(s.r, 30e6, 80e6))
			}
			s.queueBytes = math.Max(8*s.capBps*float64(s.rttNs)/1e9, 64*float64(s.mds))
		}
		s.run(per)
		done += s.ops
		if s.ops == 0 {
			done += 1
		}
		emit(fmt.Sprintf("note trace-end slots-max=%d a0-max=%d", c.maxSlots, c.maxA0),
			"a0max:"+bucketOf(c.maxA0), "slotsmax:"+bucketOf(c.maxSlots))
		done++
		k++
	}
}

// genFat (component `bbrfat`): long fat loss-free paths on which start-up drives the window up to the
// 20000-packet cap; one trace per 90 000 ops, profile drawn from the seed.
func (c *verifBbr) genFat(r *vh.RNG, n int, emit func(op string, tags ...string)) {
	profs := []string{"std", "con", "agg"}
	for done := 0; done < n; {
		s := newSim(r.Fork(), c, emit, profs[r.Intn(3)], true)
		s.fat = true
		s.capBps, s.rttNs, s.ackEvery = 600e6, 300e6, 10
		s.queueBytes = 8 * s.capBps * float64(s.rttNs) / 1e9
		s.run(90000)
		done += s.ops + 1
	}
}

func bucketOf(n int) string {
	bs := []int{4, 16, 64, 256, 1024, 4096, 16384}
	for _, b := range bs {
		if n <= b {
			return "le" + strconv.Itoa(b)
		}
	}
	return "gt16384"
}

var _ = sort.Ints
