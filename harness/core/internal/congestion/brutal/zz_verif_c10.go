//go:build verif

package brutal

// VerifC10Bps is the rate this sender was constructed with, as the uint64 it was given
// (the field is a congestion.ByteCount = int64; the conversion back is bit-exact).
func (b *BrutalSender) VerifC10Bps() uint64 { return uint64(b.bps) }
