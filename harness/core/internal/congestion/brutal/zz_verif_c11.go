//go:build verif

package brutal

import (
	"math"
	"time"

	"github.com/apernet/hysteria/core/v2/internal/congestion/common"
)

// C11 shim: read-only access to BrutalSender's loss-compensation state and constants.

func (b *BrutalSender) VerifC11AckRate() float64 { return b.ackRate }

func (b *BrutalSender) VerifC11Pacer() *common.Pacer { return b.pacer }

func (b *BrutalSender) VerifC11MaxDatagramSize() int64 { return int64(b.maxDatagramSize) }

// VerifC11Slots returns the five (Timestamp, AckCount, LossCount) triples in slot order.
func (b *BrutalSender) VerifC11Slots() [][3]uint64 {
	out := make([][3]uint64, 0, len(b.pktInfoSlots))
	for _, s := range b.pktInfoSlots {
		out = append(out, [3]uint64{uint64(s.Timestamp), s.AckCount, s.LossCount})
	}
	return out
}

type verifNoRTT struct{}

func (verifNoRTT) MinRTT() time.Duration                       { return 0 }
func (verifNoRTT) LatestRTT() time.Duration                    { return 0 }
func (verifNoRTT) SmoothedRTT() time.Duration                  { return 0 }
func (verifNoRTT) MeanDeviation() time.Duration                { return 0 }
func (verifNoRTT) MaxAckDelay() time.Duration                  { return 0 }
func (verifNoRTT) PTO(bool) time.Duration                      { return 0 }
func (verifNoRTT) UpdateRTT(sendDelta, ackDelay time.Duration) {}
func (verifNoRTT) SetMaxAckDelay(time.Duration)                {}
func (verifNoRTT) SetInitialRTT(time.Duration)                 {}

func VerifC11Consts() map[string]uint64 {
	// the window used before any RTT sample is a literal inside GetCongestionWindow:
	// read it off the compiled function
	bs := NewBrutalSender(1<<20, false)
	bs.SetRTTStatsProvider(verifNoRTT{})
	return map[string]uint64{
		"pktInfoSlotCount":           pktInfoSlotCount,
		"minSampleCount":             minSampleCount,
		"minAckRateMilli":            uint64(minAckRate * 1000), // exact constant arithmetic: 800
		"minAckRateBits":             math.Float64bits(minAckRate),
		"congestionWindowMultiplier": congestionWindowMultiplier,
		"brutalNoRttWindow":          uint64(bs.GetCongestionWindow()),
	}
}
