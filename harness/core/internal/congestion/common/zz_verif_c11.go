//go:build verif

package common

import (
	"time"

	"github.com/apernet/quic-go/congestion"
)

// C11 shim: read-only access to the pacer's token bucket and the constants the Lean
// model is stated over (regenerated into lean/Hy/Gen/Core.lean on every run).

// VerifC11State returns budgetAtLastSent, maxDatagramSize, lastSentTime (ns).
func (p *Pacer) VerifC11State() (int64, int64, int64) {
	return int64(p.budgetAtLastSent), int64(p.maxDatagramSize), int64(p.lastSentTime)
}

// VerifC11Bandwidth is what getBandwidth() returns right now.
func (p *Pacer) VerifC11Bandwidth() int64 { return int64(p.getBandwidth()) }

// VerifC11MaxBurst is maxBurstSize() right now.
func (p *Pacer) VerifC11MaxBurst() int64 { return int64(p.maxBurstSize()) }

func VerifC11Consts() map[string]uint64 {
	return map[string]uint64{
		"maxBurstPackets":               maxBurstPackets,
		"maxBurstPacingDelayMultiplier": maxBurstPacingDelayMultiplier,
		"InitialPacketSize":             uint64(congestion.InitialPacketSize),
		"MinPacingDelayNs":              uint64(time.Duration(congestion.MinPacingDelay).Nanoseconds()),
	}
}
