//go:build verif

package common

// VerifConstsC12 exposes the pacer's burst constants for C12 (Hy.Model.BbrCore `maxBurst`).
func VerifConstsC12() map[string]any {
	return map[string]any{
		"pacer_maxBurstPackets":               uint64(maxBurstPackets),
		"pacer_maxBurstPacingDelayMultiplier": uint64(maxBurstPacingDelayMultiplier),
	}
}
