// verifgen: fact extractor. Reads Go source files of /repo's CURRENT working tree with
// go/parser and prints, per function, how many places can fault at run time:
//
//	idx    index expressions x[i]            (slice/array/string/map — syntactic, map reads included)
//	slice  slice expressions x[i:j]
//	make   make(...) calls
//	div    integer / and % (syntactic: every / and %, float ones included)
//	conv   conversions to a fixed-width integer type: uint8/byte/uint16/uint32/uint64/int8/…/int/uint
//	panic  explicit panic(...) calls
//	assert type assertions WITHOUT the comma-ok form
//
// Output (one line per function that has at least one site, sorted):
//
//	<relative file>:<receiver.>func idx slice make div conv panic assert
//
// tools/hv turns this into lean/Hy/Gen/Sites<Prop>.lean; the Props file holds the expected
// table together with the theorem that covers each function, and equality is decided by the
// Lean kernel. A new unchecked index in an anchored decoder therefore breaks an obligation
// even when no sampled input reaches it.
package main

import (
	"fmt"
	"go/ast"
	"go/parser"
	"go/token"
	"os"
	"path/filepath"
	"sort"
	"strings"
)

var fixed = map[string]bool{"uint8": true, "byte": true, "uint16": true, "uint32": true, "uint64": true,
	"int8": true, "int16": true, "int32": true, "int64": true, "int": true, "uint": true}

type counts struct{ idx, slice, mk, div, conv, pnc, assert int }

func (c counts) any() bool { return c.idx+c.slice+c.mk+c.div+c.conv+c.pnc+c.assert > 0 }

func recvName(fd *ast.FuncDecl) string {
	if fd.Recv == nil || len(fd.Recv.List) == 0 {
		return ""
	}
	t := fd.Recv.List[0].Type
	for {
		switch x := t.(type) {
		case *ast.StarExpr:
			t = x.X
			continue
		case *ast.IndexExpr:
			t = x.X
			continue
		case *ast.Ident:
			return x.Name + "."
		}
		return "?."
	}
}

func main() {
	if len(os.Args) >= 2 && os.Args[1] == "translate" {
		translateMain(os.Args[2:]) // translate.go: Go source → Lean definitions
		return
	}
	if len(os.Args) < 3 {
		fmt.Fprintln(os.Stderr, "usage: verifgen <repo root> <relative file>...")
		os.Exit(2)
	}
	root := os.Args[1]
	var lines []string
	for _, rel := range os.Args[2:] {
		fset := token.NewFileSet()
		f, err := parser.ParseFile(fset, filepath.Join(root, rel), nil, parser.SkipObjectResolution)
		if err != nil {
			fmt.Fprintln(os.Stderr, "parse error:", err)
			os.Exit(1)
		}
		for _, d := range f.Decls {
			fd, ok := d.(*ast.FuncDecl)
			if !ok || fd.Body == nil {
				continue
			}
			var c counts
			okAssert := map[*ast.TypeAssertExpr]bool{}
			ast.Inspect(fd.Body, func(n ast.Node) bool {
				switch x := n.(type) {
				case *ast.AssignStmt:
					if len(x.Lhs) == 2 && len(x.Rhs) == 1 {
						if ta, ok := x.Rhs[0].(*ast.TypeAssertExpr); ok {
							okAssert[ta] = true
						}
					}
				case *ast.ValueSpec:
					if len(x.Names) == 2 && len(x.Values) == 1 {
						if ta, ok := x.Values[0].(*ast.TypeAssertExpr); ok {
							okAssert[ta] = true
						}
					}
				case *ast.TypeSwitchStmt:
					// x.(type) never faults
					ast.Inspect(x.Assign, func(m ast.Node) bool {
						if ta, ok := m.(*ast.TypeAssertExpr); ok && ta.Type == nil {
							okAssert[ta] = true
						}
						return true
					})
				}
				return true
			})
			ast.Inspect(fd.Body, func(n ast.Node) bool {
				switch x := n.(type) {
				case *ast.IndexExpr:
					c.idx++
				case *ast.SliceExpr:
					c.slice++
				case *ast.BinaryExpr:
					if x.Op == token.QUO || x.Op == token.REM {
						c.div++
					}
				case *ast.AssignStmt:
					if x.Tok == token.QUO_ASSIGN || x.Tok == token.REM_ASSIGN {
						c.div++
					}
				case *ast.TypeAssertExpr:
					if !okAssert[x] {
						c.assert++
					}
				case *ast.CallExpr:
					if id, ok := x.Fun.(*ast.Ident); ok {
						switch {
						case id.Name == "make":
							c.mk++
						case id.Name == "panic":
							c.pnc++
						case fixed[id.Name] && len(x.Args) == 1:
							c.conv++
						}
					}
				}
				return true
			})
			if c.any() {
				lines = append(lines, fmt.Sprintf("%s:%s%s %d %d %d %d %d %d %d", rel, recvName(fd), fd.Name.Name,
					c.idx, c.slice, c.mk, c.div, c.conv, c.pnc, c.assert))
			}
		}
	}
	sort.Strings(lines)
	fmt.Println(strings.Join(lines, "\n"))
}
