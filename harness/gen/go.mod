module verifgen

go 1.21
