// verifgen translate: regenerates Lean 4 definitions from Go source.
//
//	verifgen translate <repo root> -name <Name> [-type pkg.T=int64]... [-const pkg.C=<type>]...
//	         [-extern [pkg.]F=<argtype>,...:<rettype>]... <relative file>:<[Recv.]Func>...
//
// prints the text of lean/Hy/Gen/Trans<Name>.lean on stdout.  The translator accepts a
// deliberately small subset of Go — straight-line integer code:
//
//	statements   x := e, x = e, x op= e, x++/x--, var x T [= e], if/else if/else (no init
//	             statement), return, panic(...), nested blocks, p.field = e (pointer receiver),
//	             b[i] = e on a []byte parameter
//	expressions  integer literals (1e9 included), + - * / % << >> (constant shift count) & | ^ on
//	             unsigned operands, unary + - !, comparisons, && ||, min, max, len(x) of a
//	             slice/string parameter or receiver field, conversions between fixed-width
//	             integer types, package-level constants of the same package (resolved to their
//	             value), receiver fields of integer type, calls of other functions/methods of the
//	             same package that are themselves in the subset, and what the command line
//	             declares: named integer types of other packages (-type), constants of other
//	             packages (-const, they become parameters), functions treated as parameters
//	             (-extern, `Int → … → Int`).  A receiver field of type func() T called with no
//	             argument is a parameter as well (the environment's answer, the same for every
//	             call inside one invocation).
//
// Anything else makes the translation of that function FAIL (exit status 1, the function is
// omitted from the output, so the theorem about it no longer builds): no approximation is
// ever emitted.
//
// Semantics of the output (see lean/Hy/Base/GoInt.lean): every Go integer value is the `Int`
// it denotes; every arithmetic result and conversion of type T goes through T's wrap function
// (u8…u64: mod 2^n; i8…i64: two's complement); int/uint are 64 bits; signed / and % are
// Int.tdiv/Int.tmod, a non-constant zero divisor is a panic; x>>k is x / 2^k (floor), x<<k is
// wrap(x * 2^k).  The wrap is omitted only where Go's result provably is the exact one:
// x / c, x % y, unsigned x / y, x >> k, conversions into a type that contains the source
// type's range, and constant expressions (which the Go compiler evaluates exactly).
// A function that can panic (explicit panic, division by a non-constant, store out of range)
// returns `Hy.Res`, with `.panic` for every panicking path (partial effects are not reported);
// all others return their value.  Output tuple: [stores into the slice parameter as
// (index, byte) pairs in program order] × [receiver fields assigned, alphabetical] × [result].
// Built in (library semantics, trusted): time.Duration = int64 with Nanoseconds() the identity
// and the time.Nanosecond … time.Hour constants; monotime.Time methods (quic-go fork:
// `type Time int64`) Sub = wrapped subtraction, Add = wrapped addition, IsZero = (t == 0),
// After/Before/Equal = comparisons.
package main

import (
	"fmt"
	"go/ast"
	"go/constant"
	"go/parser"
	"go/token"
	"math/big"
	"os"
	"path/filepath"
	"sort"
	"strings"
)

// ---------------------------------------------------------------- types

type gtype struct {
	bits   int
	signed bool
	name   string // as written in the source (identity for the built-in method table)
}

func (t *gtype) wrap() string {
	if t.signed {
		return fmt.Sprintf("i%d", t.bits)
	}
	return fmt.Sprintf("u%d", t.bits)
}

func (t *gtype) lo() *big.Int {
	if !t.signed {
		return big.NewInt(0)
	}
	x := new(big.Int).Lsh(big.NewInt(1), uint(t.bits-1))
	return x.Neg(x)
}

func (t *gtype) hi() *big.Int { // exclusive
	if !t.signed {
		return new(big.Int).Lsh(big.NewInt(1), uint(t.bits))
	}
	return new(big.Int).Lsh(big.NewInt(1), uint(t.bits-1))
}

func (t *gtype) contains(s *gtype) bool {
	return t.lo().Cmp(s.lo()) <= 0 && s.hi().Cmp(t.hi()) <= 0
}

func (t *gtype) desc() string {
	k := t.wrap()
	return fmt.Sprintf("%s (%s)", t.name, k)
}

var basicTypes = map[string]gtype{
	"uint8": {8, false, "uint8"}, "byte": {8, false, "byte"}, "uint16": {16, false, "uint16"},
	"uint32": {32, false, "uint32"}, "uint64": {64, false, "uint64"}, "uint": {64, false, "uint"},
	"int8": {8, true, "int8"}, "int16": {16, true, "int16"}, "int32": {32, true, "int32"},
	"int64": {64, true, "int64"}, "int": {64, true, "int"},
}

// library facts that are built in (stated in the emitted header)
var builtinTypes = map[string]string{"time.Duration": "int64"}

var builtinConsts = map[string]struct {
	typ string
	val int64
}{
	"time.Nanosecond": {"time.Duration", 1}, "time.Microsecond": {"time.Duration", 1000},
	"time.Millisecond": {"time.Duration", 1000000}, "time.Second": {"time.Duration", 1000000000},
	"time.Minute": {"time.Duration", 60000000000}, "time.Hour": {"time.Duration", 3600000000000},
}

// ---------------------------------------------------------------- failure

type transErr struct{ msg string }

func fail(f string, a ...any) { panic(transErr{fmt.Sprintf(f, a...)}) }

// ---------------------------------------------------------------- package context

type options struct {
	name    string
	types   map[string]string // "pkg.T" -> basic type name
	consts  map[string]string // "pkg.C" -> type (basic, -type or built-in)
	externs map[string]externSig
}

type externSig struct {
	args []string
	ret  string
}

type pkgCtx struct {
	root, dir string
	fset      *token.FileSet
	files     map[string]*ast.File // base name -> file
	src       map[string][]byte
	consts    map[string]*ast.ValueSpec
	constIdx  map[string]int
	constDup  map[string]bool
	types     map[string]ast.Expr
	funcs     map[string]*ast.FuncDecl // "Recv.Name" / "Name"
	funcFile  map[string]string
	imports   map[string]bool // every import alias used by any file of the package
	opt       *options
	done      map[string]*fnSig
	busy      map[string]bool
	order     []string
	constBusy map[string]bool
}

func loadPkg(root, dir string, opt *options) *pkgCtx {
	c := &pkgCtx{root: root, dir: dir, fset: token.NewFileSet(), files: map[string]*ast.File{}, src: map[string][]byte{},
		consts: map[string]*ast.ValueSpec{}, constIdx: map[string]int{}, constDup: map[string]bool{}, types: map[string]ast.Expr{},
		funcs: map[string]*ast.FuncDecl{}, funcFile: map[string]string{}, imports: map[string]bool{}, opt: opt,
		done: map[string]*fnSig{}, busy: map[string]bool{}, constBusy: map[string]bool{}}
	ents, err := os.ReadDir(filepath.Join(root, dir))
	if err != nil {
		fail("cannot read package directory %s: %v", dir, err)
	}
	for _, e := range ents {
		n := e.Name()
		if e.IsDir() || !strings.HasSuffix(n, ".go") || strings.HasSuffix(n, "_test.go") {
			continue
		}
		p := filepath.Join(root, dir, n)
		b, err := os.ReadFile(p)
		if err != nil {
			fail("read %s: %v", p, err)
		}
		f, err := parser.ParseFile(c.fset, p, b, parser.SkipObjectResolution|parser.ParseComments)
		if err != nil {
			fail("parse %s: %v", p, err)
		}
		c.files[n] = f
		c.src[n] = b
		for _, im := range f.Imports {
			path := strings.Trim(im.Path.Value, "\"")
			alias := path[strings.LastIndex(path, "/")+1:]
			if im.Name != nil {
				alias = im.Name.Name
			}
			c.imports[alias] = true
		}
		for _, d := range f.Decls {
			switch x := d.(type) {
			case *ast.FuncDecl:
				k := recvName(x) + x.Name.Name
				if _, dup := c.funcs[k]; dup {
					c.funcs[k] = nil // declared twice (build-tagged variants): refuse to pick one
				} else {
					c.funcs[k] = x
					c.funcFile[k] = n
				}
			case *ast.GenDecl:
				for _, s := range x.Specs {
					switch sp := s.(type) {
					case *ast.ValueSpec:
						if x.Tok != token.CONST {
							continue
						}
						for i, id := range sp.Names {
							if _, dup := c.consts[id.Name]; dup {
								c.constDup[id.Name] = true
							}
							c.consts[id.Name] = sp
							c.constIdx[id.Name] = i
						}
					case *ast.TypeSpec:
						c.types[sp.Name.Name] = sp.Type
					}
				}
			}
		}
	}
	return c
}

func selKey(e ast.Expr) (string, bool) {
	s, ok := e.(*ast.SelectorExpr)
	if !ok {
		return "", false
	}
	id, ok := s.X.(*ast.Ident)
	if !ok {
		return "", false
	}
	return id.Name + "." + s.Sel.Name, true
}

func (c *pkgCtx) typeByName(n string) *gtype {
	if b, ok := basicTypes[n]; ok {
		t := b
		return &t
	}
	under := ""
	if u, ok := c.opt.types[n]; ok {
		under = u
	} else if u, ok := builtinTypes[n]; ok {
		under = u
	}
	if under == "" {
		return nil
	}
	b, ok := basicTypes[under]
	if !ok {
		fail("type %s is declared as %s, which is not a fixed-width integer type", n, under)
	}
	return &gtype{b.bits, b.signed, n}
}

// resolveType: the integer type an expression in type position denotes, or nil
func (c *pkgCtx) resolveType(e ast.Expr, depth int) *gtype {
	if depth > 8 {
		fail("type declarations nest too deeply")
	}
	switch x := e.(type) {
	case *ast.ParenExpr:
		return c.resolveType(x.X, depth+1)
	case *ast.Ident:
		if t := c.typeByName(x.Name); t != nil {
			return t
		}
		if u, ok := c.types[x.Name]; ok {
			if t := c.resolveType(u, depth+1); t != nil {
				return &gtype{t.bits, t.signed, x.Name}
			}
		}
	case *ast.SelectorExpr:
		if k, ok := selKey(x); ok {
			return c.typeByName(k)
		}
	}
	return nil
}

// ---------------------------------------------------------------- values, IR

type val struct {
	lean   string
	typ    *gtype         // nil: untyped constant or bool
	c      constant.Value // compile-time constant (integer valued)
	isBool bool
	idxOf  string // the value is a bounds-checked index into this receiver slice field (a translated `&recv.field[i]`)
}

func intLit(c constant.Value) string {
	i := constant.ToInt(c)
	if i.Kind() != constant.Int {
		fail("constant %s is not an integer", c.ExactString())
	}
	s := i.ExactString()
	if strings.HasPrefix(s, "-") {
		return "(" + s + ")"
	}
	return s
}

func bigOf(c constant.Value) *big.Int {
	i := constant.ToInt(c)
	if i.Kind() != constant.Int {
		fail("constant %s is not an integer", c.ExactString())
	}
	b, ok := new(big.Int).SetString(i.ExactString(), 10)
	if !ok {
		fail("constant %s unreadable", i.ExactString())
	}
	return b
}

func constVal(c constant.Value, t *gtype) val {
	if t != nil {
		b := bigOf(c)
		if b.Cmp(t.lo()) < 0 || b.Cmp(t.hi()) >= 0 {
			fail("constant %s overflows %s", b.String(), t.name)
		}
	}
	return val{lean: intLit(c), typ: t, c: constant.ToInt(c)}
}

type ir interface{}
type irLet struct {
	name, expr string
	body       ir
}
type irIf struct {
	cond      string
	then, els ir
}
type irGuard struct {
	cond string
	body ir
}
type irBind struct {
	name, call string
	body       ir
}
type irPanic struct{}
type irReject struct{} // the Go function returned a non-nil error
type irRet struct {
	writes []string
	outs   []string
}

func irImpure(x ir) bool {
	switch n := x.(type) {
	case irLet:
		return irImpure(n.body)
	case irIf:
		return irImpure(n.then) || irImpure(n.els)
	case irGuard, irBind, irPanic, irReject:
		return true
	}
	return false
}

func irSize(x ir) int {
	switch n := x.(type) {
	case irLet:
		return 1 + irSize(n.body)
	case irIf:
		return 1 + irSize(n.then) + irSize(n.els)
	case irGuard:
		return 1 + irSize(n.body)
	case irBind:
		return 1 + irSize(n.body)
	}
	return 1
}

// ---------------------------------------------------------------- per-function translation

type recvParam struct {
	field  string
	kind   string // "field", "len", "func"
	lean   string
	typ    *gtype
	isBool bool // a bool field: Lean type Bool
	note   string
}

type declParam struct {
	goName string
	lean   string
	typ    *gtype // nil: slice/string (the parameter is its length), or bool
	isBool bool
	note   string
}

type fnSig struct {
	key, leanName string
	recvType      string
	recvParams    []recvParam
	params        []declParam
	extConsts     []string
	extFuncs      []string
	written       []string // receiver fields assigned (sorted)
	hasStores     bool
	result        *gtype
	resultBool    bool     // the function returns bool (Lean: Bool)
	resultIndex   string   // the function returns &recv.<field>[i]: the value is the (bounds-checked) index i
	resultStruct  string   // the function returns (S, error): S a struct of this package with integer fields only
	resultFields  []string // its fields, alphabetical
	impure        bool
	body          ir
	file          string
	line0, line1  int
	src           string
}

type pend struct {
	guard      string
	name, call string
}

type gvar struct {
	lean   string
	typ    *gtype
	slice  bool // []byte / string: only len() and (for []byte) stores
	bytes  bool
	isBool bool
}

type env struct {
	vars   map[string]*gvar
	writes []string
}

func (e *env) copy() *env {
	n := &env{vars: map[string]*gvar{}, writes: append([]string(nil), e.writes...)}
	for k, v := range e.vars {
		n.vars[k] = v
	}
	return n
}

type fnTrans struct {
	c            *pkgCtx
	fd           *ast.FuncDecl
	key          string
	recvVar      string
	recvType     string
	recvPtr      bool
	fields       map[string]ast.Expr
	recvUse      map[string]recvParam // key kind+":"+field
	written      map[string]bool
	extConsts    map[string]bool
	extFuncs     map[string]bool
	pending      []pend
	nfresh       int
	storeParam   string
	result       *gtype
	resultBool   bool
	resultIndex  string
	resultStruct string
	resultFields []string
	resultFTypes map[string]*gtype
	leanNames    map[string]bool
}

var leanReserved = map[string]bool{"at": true, "end": true, "from": true, "fun": true, "do": true, "then": true, "open": true,
	"in": true, "let": true, "have": true, "show": true, "with": true, "match": true, "if": true, "else": true, "by": true,
	"Type": true, "Prop": true, "mut": true, "where": true, "deriving": true, "instance": true, "def": true, "theorem": true,
	"namespace": true, "section": true, "variable": true, "universe": true, "local": true, "private": true, "import": true,
	"for": true, "return": true, "structure": true, "class": true, "inductive": true, "example": true, "abbrev": true,
	"macro": true, "syntax": true, "notation": true, "infix": true, "prefix": true, "postfix": true, "set_option": true,
	"attribute": true, "export": true, "extends": true, "forall": true, "exists": true, "calc": true, "using": true,
	"suffices": true, "obtain": true, "nomatch": true, "nofun": true, "unless": true, "try": true, "catch": true,
	"finally": true, "break": true, "continue": true, "mutual": true, "partial": true, "unsafe": true, "opaque": true,
	"axiom": true, "noncomputable": true, "protected": true, "scoped": true, "omit": true, "include": true, "Sort": true}

// names the generated text uses itself; a Go identifier with one of these names is refused
var clashNames = map[string]bool{"u8": true, "u16": true, "u32": true, "u64": true, "i8": true, "i16": true, "i32": true,
	"i64": true, "lor": true, "land": true, "lxor": true, "min": true, "max": true, "len": true, "panic": true, "Int": true,
	"Res": true, "Hy": true, "GoInt": true, "True": true, "False": true, "List": true}

func (t *fnTrans) leanIdent(goName string) string {
	if clashNames[goName] || basicTypes[goName].bits != 0 {
		fail("identifier %q shadows a name the translation needs", goName)
	}
	if strings.HasPrefix(goName, "w_") || strings.HasPrefix(goName, "r_") {
		fail("identifier %q collides with the translator's fresh names", goName)
	}
	for _, r := range goName {
		if r > 127 {
			fail("non-ASCII identifier %q", goName)
		}
	}
	if leanReserved[goName] {
		return "«" + goName + "»"
	}
	return goName
}

func (t *fnTrans) fresh(prefix string) string {
	t.nfresh++
	return fmt.Sprintf("%s%d", prefix, t.nfresh)
}

func (c *pkgCtx) translate(key string) *fnSig {
	if s, ok := c.done[key]; ok {
		return s
	}
	if c.busy[key] {
		fail("recursive call cycle through %s", key)
	}
	fd, ok := c.funcs[key]
	if !ok {
		fail("function %s not found in package %s", key, c.dir)
	}
	if fd == nil {
		fail("function %s is declared more than once in package %s (build-tagged variants?)", key, c.dir)
	}
	if fd.Body == nil {
		fail("function %s has no body", key)
	}
	c.busy[key] = true
	defer delete(c.busy, key)
	t := &fnTrans{c: c, fd: fd, key: key, fields: map[string]ast.Expr{}, recvUse: map[string]recvParam{}, written: map[string]bool{},
		extConsts: map[string]bool{}, extFuncs: map[string]bool{}, leanNames: map[string]bool{}}
	if fd.Type.TypeParams != nil {
		fail("generic function")
	}
	en := &env{vars: map[string]*gvar{}}
	// receiver
	if fd.Recv != nil && len(fd.Recv.List) == 1 {
		rt := fd.Recv.List[0].Type
		if st, ok := rt.(*ast.StarExpr); ok {
			t.recvPtr = true
			rt = st.X
		}
		switch g := rt.(type) { // generic receiver RingBuffer[T]: the type arguments play no role in integer code
		case *ast.IndexExpr:
			rt = g.X
		case *ast.IndexListExpr:
			rt = g.X
		}
		id, ok := rt.(*ast.Ident)
		if !ok {
			fail("receiver type is not a plain named type")
		}
		t.recvType = id.Name
		if len(fd.Recv.List[0].Names) == 1 {
			t.recvVar = fd.Recv.List[0].Names[0].Name
		}
		if st, ok := c.types[id.Name].(*ast.StructType); ok {
			for _, f := range st.Fields.List {
				for _, n := range f.Names {
					t.fields[n.Name] = f.Type
				}
			}
		} else if t.recvVar != "" && t.recvVar != "_" {
			// a named integer receiver is an ordinary parameter
			if g := c.resolveType(rt, 0); g != nil {
				en.vars[t.recvVar] = &gvar{lean: t.leanIdent(t.recvVar), typ: g}
				t.recvVar = ""
				t.recvType = "=" + id.Name
			} else {
				fail("receiver type %s is neither a struct nor an integer type declared in this package", id.Name)
			}
		}
	}
	// parameters
	sig := &fnSig{key: key, recvType: t.recvType}
	if strings.HasPrefix(t.recvType, "=") {
		v := en.vars[fd.Recv.List[0].Names[0].Name]
		sig.params = append(sig.params, declParam{goName: fd.Recv.List[0].Names[0].Name, lean: v.lean, typ: v.typ, note: "receiver, " + v.typ.desc()})
	}
	nunused := 0
	for _, f := range fd.Type.Params.List {
		names := f.Names
		if len(names) == 0 {
			names = []*ast.Ident{{Name: "_"}}
		}
		for _, n := range names {
			if _, isEll := f.Type.(*ast.Ellipsis); isEll {
				fail("variadic parameter")
			}
			if g := c.resolveType(f.Type, 0); g != nil {
				ln := ""
				if n.Name == "_" {
					nunused++
					ln = fmt.Sprintf("_unused%d", nunused)
				} else {
					ln = t.leanIdent(n.Name)
					en.vars[n.Name] = &gvar{lean: ln, typ: g}
				}
				sig.params = append(sig.params, declParam{goName: n.Name, lean: ln, typ: g, note: g.desc()})
				continue
			}
			if id, ok := f.Type.(*ast.Ident); ok && id.Name == "bool" && n.Name != "_" {
				ln := t.leanIdent(n.Name)
				en.vars[n.Name] = &gvar{lean: ln, isBool: true}
				sig.params = append(sig.params, declParam{goName: n.Name, lean: ln, isBool: true, note: "bool"})
				continue
			}
			isBytes, isStr := false, false
			if at, ok := f.Type.(*ast.ArrayType); ok && at.Len == nil {
				if id, ok := at.Elt.(*ast.Ident); ok && (id.Name == "byte" || id.Name == "uint8") {
					isBytes = true
				}
			}
			if id, ok := f.Type.(*ast.Ident); ok && id.Name == "string" {
				isStr = true
			}
			if !isBytes && !isStr {
				fail("parameter %s has a type outside the subset (integer types, []byte, string)", n.Name)
			}
			if n.Name == "_" {
				nunused++
				sig.params = append(sig.params, declParam{goName: "_", lean: fmt.Sprintf("_unused%d", nunused), note: "length of an unnamed parameter"})
				continue
			}
			ln := t.leanIdent(n.Name) + "_len"
			en.vars[n.Name] = &gvar{lean: ln, slice: true, bytes: isBytes}
			sig.params = append(sig.params, declParam{goName: n.Name, lean: ln, note: "len(" + n.Name + "), int"})
		}
	}
	// result
	if r := fd.Type.Results; r != nil && len(r.List) > 0 {
		if len(r.List) == 2 && len(r.List[0].Names) == 0 && len(r.List[1].Names) == 0 {
			// (S, error) with S a struct of this package whose fields are all integers: `Res (fields…)`,
			// `Res.reject` when the error is non-nil (the struct value returned beside an error is not reported)
			sid, ok1 := r.List[0].Type.(*ast.Ident)
			eid, ok2 := r.List[1].Type.(*ast.Ident)
			if ok1 && ok2 && eid.Name == "error" {
				if st, ok := c.types[sid.Name].(*ast.StructType); ok {
					t.resultStruct = sid.Name
					t.resultFTypes = map[string]*gtype{}
					for _, f := range st.Fields.List {
						g := c.resolveType(f.Type, 0)
						if g == nil || len(f.Names) == 0 {
							fail("result struct %s has a non-integer or embedded field", sid.Name)
						}
						for _, n := range f.Names {
							t.resultFields = append(t.resultFields, n.Name)
							t.resultFTypes[n.Name] = g
						}
					}
					sort.Strings(t.resultFields)
				}
			}
		}
		if t.resultStruct != "" {
			// handled in ReturnStmt
		} else if len(r.List) != 1 || len(r.List[0].Names) > 1 {
			fail("more than one result")
		}
		if len(r.List[0].Names) == 1 {
			fail("named result")
		}
		if t.resultStruct == "" {
			t.result = c.resolveType(r.List[0].Type, 0)
		}
		if t.resultStruct != "" {
			// nothing more to resolve
		} else if id, ok := r.List[0].Type.(*ast.Ident); ok && id.Name == "bool" && t.result == nil {
			t.resultBool = true
		} else if _, ok := r.List[0].Type.(*ast.StarExpr); ok && t.result == nil {
			// a pointer result is accepted only as `&recv.field[i]` (see ReturnStmt): the value is the index
			it := basicTypes["int"]
			t.result = &it
			t.resultIndex = "?"
		} else if t.result == nil {
			fail("result type is not an integer type, bool or a pointer to an element of a receiver slice")
		}
	}
	body := t.stmts(fd.Body.List, en)
	if n := irSize(body); n > 400 {
		fail("translation too large (%d nodes): too many branches are duplicated", n)
	}
	sig.body = body
	sig.impure = irImpure(body) || t.resultStruct != ""
	sig.resultStruct, sig.resultFields = t.resultStruct, t.resultFields
	sig.result = t.result
	sig.resultBool = t.resultBool
	sig.resultIndex = t.resultIndex
	if sig.resultIndex == "?" {
		fail("pointer result that is never `&recv.field[i]`")
	}
	sig.hasStores = t.storeParam != ""
	for _, rp := range t.recvUse {
		sig.recvParams = append(sig.recvParams, rp)
	}
	sort.Slice(sig.recvParams, func(i, j int) bool {
		a, b := sig.recvParams[i], sig.recvParams[j]
		if a.field != b.field {
			return a.field < b.field
		}
		return a.kind < b.kind
	})
	for f := range t.written {
		sig.written = append(sig.written, f)
	}
	sort.Strings(sig.written)
	for k := range t.extConsts {
		sig.extConsts = append(sig.extConsts, k)
	}
	sort.Strings(sig.extConsts)
	for k := range t.extFuncs {
		sig.extFuncs = append(sig.extFuncs, k)
	}
	sort.Strings(sig.extFuncs)
	sig.leanName = strings.ReplaceAll(strings.TrimSuffix(recvName(fd), "."), "?", "X")
	if sig.leanName != "" {
		sig.leanName += "_"
	}
	sig.leanName += fd.Name.Name
	// all binder names of the definition must be distinct
	seen := map[string]bool{}
	for _, n := range sig.allParamNames() {
		if seen[n] {
			fail("parameter name %s of the translation is not unique", n)
		}
		seen[n] = true
	}
	for n := range t.leanNames {
		if seen[n] {
			fail("local %s collides with a parameter of the translation", n)
		}
	}
	fn := c.funcFile[key]
	sig.file = filepath.Join(c.dir, fn)
	p0, p1 := c.fset.Position(fd.Pos()), c.fset.Position(fd.End())
	sig.line0, sig.line1 = p0.Line, p1.Line
	sig.src = string(c.src[fn][p0.Offset:p1.Offset])
	c.done[key] = sig
	c.order = append(c.order, key)
	return sig
}

func extLean(k string) string { return strings.ReplaceAll(k, ".", "_") }

func (s *fnSig) allParamNames() []string {
	var out []string
	for _, p := range s.recvParams {
		out = append(out, p.lean)
	}
	for _, p := range s.params {
		out = append(out, p.lean)
	}
	for _, k := range s.extConsts {
		out = append(out, extLean(k))
	}
	for _, k := range s.extFuncs {
		out = append(out, extLean(k))
	}
	return out
}

// ---------------------------------------------------------------- receiver / externals

func (t *fnTrans) useRecv(kind, field string) recvParam {
	k := kind + ":" + field
	if rp, ok := t.recvUse[k]; ok {
		return rp
	}
	ft, ok := t.fields[field]
	if outer, sub, nested := strings.Cut(field, "."); nested {
		// recv.Outer.Sub with Outer a field whose type is a struct of this package
		ok = false
		if oid, isId := t.fields[outer].(*ast.Ident); isId {
			if st, isSt := t.c.types[oid.Name].(*ast.StructType); isSt {
				for _, f := range st.Fields.List {
					for _, n := range f.Names {
						if n.Name == sub {
							ft, ok = f.Type, true
						}
					}
				}
			}
		}
	}
	if !ok {
		fail("receiver has no field %s (embedded fields and methods values are outside the subset)", field)
	}
	rp := recvParam{field: field, kind: kind}
	base := t.leanIdent(t.recvVar) + "_" + strings.ReplaceAll(field, ".", "_")
	switch kind {
	case "field":
		g := t.c.resolveType(ft, 0)
		if id, ok := ft.(*ast.Ident); ok && id.Name == "bool" && g == nil {
			rp.lean, rp.isBool, rp.note = base, true, "field, bool"
			break
		}
		if g == nil {
			fail("receiver field %s is not of integer type", field)
		}
		rp.lean, rp.typ, rp.note = base, g, "field, "+g.desc()
	case "len":
		okT := false
		if id, ok := ft.(*ast.Ident); ok && id.Name == "string" {
			okT = true
		}
		if at, ok := ft.(*ast.ArrayType); ok && at.Len == nil {
			okT = true
		}
		if !okT {
			fail("len of receiver field %s: not a slice or string", field)
		}
		it := basicTypes["int"]
		rp.lean, rp.typ, rp.note = base+"_len", &it, "len of the field, int"
	case "func":
		f, ok := ft.(*ast.FuncType)
		if !ok || (f.Params != nil && len(f.Params.List) > 0) || f.Results == nil || len(f.Results.List) != 1 || len(f.Results.List[0].Names) > 1 {
			fail("receiver field %s is not a func() T", field)
		}
		g := t.c.resolveType(f.Results.List[0].Type, 0)
		if g == nil {
			fail("receiver field %s does not return an integer type", field)
		}
		rp.lean, rp.typ, rp.note = base, g, "value returned by the field func() "+g.desc()
	}
	t.recvUse[k] = rp
	return rp
}

func (t *fnTrans) isRecv(e ast.Expr) bool {
	id, ok := e.(*ast.Ident)
	return ok && t.recvVar != "" && t.recvVar != "_" && id.Name == t.recvVar
}

func (t *fnTrans) extConst(k string) val {
	tn := t.c.opt.consts[k]
	g := t.c.typeByName(tn)
	if g == nil {
		fail("-const %s: type %s is not a known integer type", k, tn)
	}
	t.extConsts[k] = true
	return val{lean: extLean(k), typ: g}
}

// ---------------------------------------------------------------- expressions

func (t *fnTrans) isImportAlias(name string, en *env) bool {
	if _, local := en.vars[name]; local {
		return false
	}
	if t.isRecvName(name) {
		return false
	}
	return t.c.imports[name]
}

func (t *fnTrans) isRecvName(n string) bool { return t.recvVar != "" && n == t.recvVar }

func (t *fnTrans) intExpr(e ast.Expr, en *env) val {
	v := t.expr(e, en)
	if v.isBool {
		fail("boolean value where an integer is needed")
	}
	if v.idxOf != "" {
		fail("pointer to a slice element used as a value")
	}
	return v
}

func (t *fnTrans) boolExpr(e ast.Expr, en *env) string {
	v := t.expr(e, en)
	if !v.isBool {
		fail("integer value where a condition is needed")
	}
	return v.lean
}

func (t *fnTrans) pkgConst(name string) val {
	c := t.c
	if c.constDup[name] {
		fail("constant %s is declared more than once in the package", name)
	}
	sp := c.consts[name]
	i := c.constIdx[name]
	if len(sp.Values) <= i {
		fail("constant %s has no explicit value (iota / implicit repetition is outside the subset)", name)
	}
	if c.constBusy[name] {
		fail("constant %s is defined in terms of itself", name)
	}
	c.constBusy[name] = true
	defer delete(c.constBusy, name)
	ct := &fnTrans{c: c, fields: map[string]ast.Expr{}, recvUse: map[string]recvParam{}, written: map[string]bool{},
		extConsts: map[string]bool{}, extFuncs: map[string]bool{}, leanNames: map[string]bool{}}
	v := ct.expr(sp.Values[i], &env{vars: map[string]*gvar{}})
	if v.c == nil || len(ct.extConsts) > 0 || len(ct.extFuncs) > 0 {
		fail("constant %s is not a simple integer constant expression of this package", name)
	}
	if sp.Type != nil {
		g := c.resolveType(sp.Type, 0)
		if g == nil {
			fail("constant %s has a non-integer type", name)
		}
		return constVal(v.c, g)
	}
	return v
}

func unify(a, b val) *gtype {
	if a.typ != nil && b.typ != nil {
		if a.typ.bits != b.typ.bits || a.typ.signed != b.typ.signed {
			fail("operands of different integer types %s and %s", a.typ.name, b.typ.name)
		}
		return a.typ
	}
	if a.typ != nil {
		return a.typ
	}
	return b.typ
}

func pow2(k int64) string { return new(big.Int).Lsh(big.NewInt(1), uint(k)).String() }

func (t *fnTrans) expr(e ast.Expr, en *env) val {
	switch x := e.(type) {
	case *ast.ParenExpr:
		return t.expr(x.X, en)
	case *ast.BasicLit:
		if x.Kind != token.INT && x.Kind != token.FLOAT && x.Kind != token.CHAR {
			fail("literal %s", x.Value)
		}
		c := constant.MakeFromLiteral(x.Value, x.Kind, 0)
		if c.Kind() == constant.Unknown {
			fail("literal %s", x.Value)
		}
		ci := constant.ToInt(c)
		if ci.Kind() != constant.Int {
			fail("non-integer literal %s (floating point is outside the subset)", x.Value)
		}
		return val{lean: intLit(ci), c: ci}
	case *ast.Ident:
		if v, ok := en.vars[x.Name]; ok {
			if v.slice {
				fail("slice/string %s used as a value", x.Name)
			}
			if v.isBool {
				return val{lean: "(" + v.lean + " = true)", isBool: true}
			}
			return val{lean: v.lean, typ: v.typ}
		}
		if x.Name == "true" {
			return val{lean: "True", isBool: true}
		}
		if x.Name == "false" {
			return val{lean: "False", isBool: true}
		}
		if t.isRecvName(x.Name) {
			fail("receiver used as a value")
		}
		if _, ok := t.c.consts[x.Name]; ok {
			return t.pkgConst(x.Name)
		}
		fail("identifier %s is not a local, a parameter or a constant of this package", x.Name)
	case *ast.SelectorExpr:
		if t.isRecv(x.X) {
			rp := t.useRecv("field", x.Sel.Name)
			if rp.isBool {
				return val{lean: "(" + rp.lean + " = true)", isBool: true}
			}
			return val{lean: rp.lean, typ: rp.typ}
		}
		if in, ok := x.X.(*ast.SelectorExpr); ok && t.isRecv(in.X) {
			rp := t.useRecv("field", in.Sel.Name+"."+x.Sel.Name)
			if rp.isBool {
				return val{lean: "(" + rp.lean + " = true)", isBool: true}
			}
			return val{lean: rp.lean, typ: rp.typ}
		}
		if k, ok := selKey(x); ok && t.isImportAlias(strings.SplitN(k, ".", 2)[0], en) {
			if bc, ok := builtinConsts[k]; ok {
				return constVal(constant.MakeInt64(bc.val), t.c.typeByName(bc.typ))
			}
			if _, ok := t.c.opt.consts[k]; ok {
				return t.extConst(k)
			}
			fail("%s: constant of another package that was not declared with -const", k)
		}
		fail("selector expression .%s outside the subset", x.Sel.Name)
	case *ast.UnaryExpr:
		switch x.Op {
		case token.NOT:
			return val{lean: "(¬ " + t.boolExpr(x.X, en) + ")", isBool: true}
		case token.ADD:
			return t.intExpr(x.X, en)
		case token.SUB:
			a := t.intExpr(x.X, en)
			if a.c != nil {
				return constVal(constant.UnaryOp(token.SUB, a.c, 0), a.typ)
			}
			return val{lean: fmt.Sprintf("(%s (-%s))", a.typ.wrap(), a.lean), typ: a.typ}
		}
		fail("unary operator %s", x.Op)
	case *ast.BinaryExpr:
		return t.binary(x, en)
	case *ast.CallExpr:
		return t.call(x, en)
	}
	fail("expression of kind %T is outside the subset", e)
	return val{}
}

func (t *fnTrans) binary(x *ast.BinaryExpr, en *env) val {
	switch x.Op {
	case token.LAND, token.LOR:
		a := t.boolExpr(x.X, en)
		mark := len(t.pending)
		b := t.boolExpr(x.Y, en)
		if len(t.pending) != mark {
			fail("right operand of %s can panic: short-circuit evaluation of panicking operands is outside the subset", x.Op)
		}
		op := "∧"
		if x.Op == token.LOR {
			op = "∨"
		}
		return val{lean: fmt.Sprintf("(%s %s %s)", a, op, b), isBool: true}
	case token.EQL, token.NEQ, token.LSS, token.LEQ, token.GTR, token.GEQ:
		a, b := t.intExpr(x.X, en), t.intExpr(x.Y, en)
		unify(a, b)
		if a.c != nil && b.c != nil {
			if constant.Compare(a.c, x.Op, b.c) {
				return val{lean: "True", isBool: true}
			}
			return val{lean: "False", isBool: true}
		}
		op := map[token.Token]string{token.EQL: "=", token.NEQ: "≠", token.LSS: "<", token.LEQ: "≤", token.GTR: ">", token.GEQ: "≥"}[x.Op]
		return val{lean: fmt.Sprintf("(%s %s %s)", a.lean, op, b.lean), isBool: true}
	case token.SHL, token.SHR:
		a, k := t.intExpr(x.X, en), t.intExpr(x.Y, en)
		if k.c == nil {
			fail("shift by a non-constant count")
		}
		kb := bigOf(k.c)
		if kb.Sign() < 0 || kb.Cmp(big.NewInt(4096)) > 0 {
			fail("shift count %s", kb.String())
		}
		if a.c != nil {
			r := constant.Shift(a.c, x.Op, uint(kb.Int64()))
			return constVal(r, a.typ)
		}
		if x.Op == token.SHR {
			return val{lean: fmt.Sprintf("(%s / %s)", a.lean, pow2(kb.Int64())), typ: a.typ}
		}
		return val{lean: fmt.Sprintf("(%s (%s * %s))", a.typ.wrap(), a.lean, pow2(kb.Int64())), typ: a.typ}
	case token.ADD, token.SUB, token.MUL, token.QUO, token.REM, token.AND, token.OR, token.XOR:
		a, b := t.intExpr(x.X, en), t.intExpr(x.Y, en)
		return t.arith(x.Op, a, b)
	}
	fail("binary operator %s", x.Op)
	return val{}
}

func (t *fnTrans) arith(op token.Token, a, b val) val {
	ty := unify(a, b)
	if a.c != nil && b.c != nil {
		if op == token.QUO || op == token.REM {
			if bigOf(b.c).Sign() == 0 {
				fail("constant division by zero")
			}
			// integer constants: Go truncates
			qa, qb := bigOf(a.c), bigOf(b.c)
			q, r := new(big.Int).QuoRem(qa, qb, new(big.Int))
			if op == token.QUO {
				return constVal(constant.MakeFromLiteral(q.String(), token.INT, 0), ty)
			}
			return constVal(constant.MakeFromLiteral(r.String(), token.INT, 0), ty)
		}
		return constVal(constant.BinaryOp(a.c, op, b.c), ty)
	}
	if ty == nil {
		fail("internal: non-constant untyped operands")
	}
	w := ty.wrap()
	switch op {
	case token.ADD:
		return val{lean: fmt.Sprintf("(%s (%s + %s))", w, a.lean, b.lean), typ: ty}
	case token.SUB:
		return val{lean: fmt.Sprintf("(%s (%s - %s))", w, a.lean, b.lean), typ: ty}
	case token.MUL:
		return val{lean: fmt.Sprintf("(%s (%s * %s))", w, a.lean, b.lean), typ: ty}
	case token.QUO, token.REM:
		constDiv := b.c != nil
		if constDiv && bigOf(b.c).Sign() == 0 {
			fail("division by the constant zero")
		}
		if !constDiv {
			t.pending = append(t.pending, pend{guard: fmt.Sprintf("(%s ≠ 0)", b.lean)})
		}
		if !ty.signed {
			o := "/"
			if op == token.REM {
				o = "%"
			}
			return val{lean: fmt.Sprintf("(%s %s %s)", a.lean, o, b.lean), typ: ty}
		}
		if op == token.REM {
			return val{lean: fmt.Sprintf("(Int.tmod %s %s)", a.lean, b.lean), typ: ty}
		}
		if constDiv && bigOf(b.c).Cmp(big.NewInt(-1)) != 0 {
			return val{lean: fmt.Sprintf("(Int.tdiv %s %s)", a.lean, b.lean), typ: ty}
		}
		return val{lean: fmt.Sprintf("(%s (Int.tdiv %s %s))", w, a.lean, b.lean), typ: ty}
	case token.AND, token.OR, token.XOR:
		if ty.signed {
			fail("bit operation %s on a signed type", op)
		}
		for _, o := range []val{a, b} {
			if o.c != nil && bigOf(o.c).Sign() < 0 {
				fail("bit operation with a negative constant")
			}
		}
		f := map[token.Token]string{token.AND: "land", token.OR: "lor", token.XOR: "lxor"}[op]
		return val{lean: fmt.Sprintf("(%s %s %s)", f, a.lean, b.lean), typ: ty}
	}
	fail("operator %s", op)
	return val{}
}

func (t *fnTrans) convert(g *gtype, a val) val {
	if a.c != nil {
		return constVal(a.c, g)
	}
	if g.contains(a.typ) {
		return val{lean: a.lean, typ: g}
	}
	return val{lean: fmt.Sprintf("(%s %s)", g.wrap(), a.lean), typ: g}
}

func (t *fnTrans) minmax(name string, args []ast.Expr, en *env) val {
	if len(args) < 1 {
		fail("%s without arguments", name)
	}
	vs := make([]val, len(args))
	var ty *gtype
	allConst := true
	for i, a := range args {
		vs[i] = t.intExpr(a, en)
		if vs[i].typ != nil {
			if ty != nil {
				unify(val{typ: ty}, vs[i])
			}
			ty = vs[i].typ
		}
		if vs[i].c == nil {
			allConst = false
		}
	}
	if allConst {
		best := vs[0].c
		for _, v := range vs[1:] {
			if (name == "min" && constant.Compare(v.c, token.LSS, best)) || (name == "max" && constant.Compare(v.c, token.GTR, best)) {
				best = v.c
			}
		}
		return constVal(best, ty)
	}
	out := vs[0].lean
	for _, v := range vs[1:] {
		out = fmt.Sprintf("(%s %s %s)", name, out, v.lean)
	}
	return val{lean: out, typ: ty}
}

// built-in methods of library integer types
func (t *fnTrans) builtinMethod(recv val, m string, args []ast.Expr, en *env) (val, bool) {
	if recv.typ == nil {
		return val{}, false
	}
	i64t := func(n string) *gtype { return t.c.typeByName(n) }
	arg := func(i int, want string) val {
		if len(args) <= i {
			fail("%s.%s: missing argument", recv.typ.name, m)
		}
		a := t.intExpr(args[i], en)
		if a.typ != nil && a.typ.name != want {
			fail("%s.%s: argument of type %s, want %s", recv.typ.name, m, a.typ.name, want)
		}
		return a
	}
	switch recv.typ.name + "." + m {
	case "time.Duration.Nanoseconds":
		if len(args) != 0 {
			fail("Nanoseconds with arguments")
		}
		g := basicTypes["int64"]
		return val{lean: recv.lean, typ: &g, c: recv.c}, true
	case "monotime.Time.Sub":
		a := arg(0, "monotime.Time")
		g := i64t("time.Duration")
		return val{lean: fmt.Sprintf("(i64 (%s - %s))", recv.lean, a.lean), typ: g}, true
	case "monotime.Time.Add":
		a := arg(0, "time.Duration")
		return val{lean: fmt.Sprintf("(i64 (%s + %s))", recv.lean, a.lean), typ: recv.typ}, true
	case "monotime.Time.IsZero":
		return val{lean: fmt.Sprintf("(%s = 0)", recv.lean), isBool: true}, true
	case "monotime.Time.After":
		a := arg(0, "monotime.Time")
		return val{lean: fmt.Sprintf("(%s > %s)", recv.lean, a.lean), isBool: true}, true
	case "monotime.Time.Before":
		a := arg(0, "monotime.Time")
		return val{lean: fmt.Sprintf("(%s < %s)", recv.lean, a.lean), isBool: true}, true
	case "monotime.Time.Equal":
		a := arg(0, "monotime.Time")
		return val{lean: fmt.Sprintf("(%s = %s)", recv.lean, a.lean), isBool: true}, true
	}
	return val{}, false
}

func (t *fnTrans) externCall(k string, args []ast.Expr, en *env) val {
	sg := t.c.opt.externs[k]
	if len(sg.args) != len(args) {
		fail("extern %s: %d arguments, declared with %d", k, len(args), len(sg.args))
	}
	parts := []string{extLean(k)}
	for i, a := range args {
		g := t.c.typeByName(sg.args[i])
		if g == nil {
			fail("extern %s: argument type %s", k, sg.args[i])
		}
		v := t.intExpr(a, en)
		if v.typ != nil && (v.typ.bits != g.bits || v.typ.signed != g.signed) {
			fail("extern %s: argument %d has type %s, declared %s", k, i, v.typ.name, g.name)
		}
		parts = append(parts, v.lean)
	}
	g := t.c.typeByName(sg.ret)
	if g == nil {
		fail("extern %s: result type %s", k, sg.ret)
	}
	t.extFuncs[k] = true
	return val{lean: "(" + strings.Join(parts, " ") + ")", typ: g}
}

// call of another function/method of the package that is translated too
func (t *fnTrans) localCall(key string, onRecv bool, args []ast.Expr, en *env) val {
	cs := t.c.translate(key)
	if len(cs.written) > 0 || cs.hasStores {
		fail("call of %s, which assigns receiver fields or stores into a slice, inside an expression", key)
	}
	if cs.result == nil && !cs.resultBool {
		fail("call of %s, which returns nothing or a struct, inside an expression", key)
	}
	if len(cs.recvParams) > 0 && (!onRecv || cs.recvType != t.recvType) {
		fail("call of method %s on something other than the caller's own receiver", key)
	}
	parts := []string{cs.leanName}
	for _, rp := range cs.recvParams {
		parts = append(parts, t.useRecv(rp.kind, rp.field).lean)
	}
	if len(args) != len(cs.params) {
		fail("call of %s with %d arguments, it has %d parameters", key, len(args), len(cs.params))
	}
	for i, a := range args {
		p := cs.params[i]
		if p.isBool {
			parts = append(parts, "(decide "+t.boolExpr(a, en)+")")
			continue
		}
		if p.typ == nil {
			// slice/string parameter: pass the length of a slice-typed local/parameter
			id, ok := a.(*ast.Ident)
			if !ok || en.vars[id.Name] == nil || !en.vars[id.Name].slice {
				fail("call of %s: argument %d must be a slice/string parameter", key, i)
			}
			parts = append(parts, en.vars[id.Name].lean)
			continue
		}
		v := t.intExpr(a, en)
		if v.typ != nil && (v.typ.bits != p.typ.bits || v.typ.signed != p.typ.signed) {
			fail("call of %s: argument %d has type %s, parameter is %s", key, i, v.typ.name, p.typ.name)
		}
		parts = append(parts, v.lean)
	}
	for _, k := range cs.extConsts {
		parts = append(parts, t.extConst(k).lean)
	}
	for _, k := range cs.extFuncs {
		t.extFuncs[k] = true
		parts = append(parts, extLean(k))
	}
	call := "(" + strings.Join(parts, " ") + ")"
	if len(parts) == 1 {
		call = parts[0]
	}
	if cs.impure {
		n := t.fresh("r_")
		t.pending = append(t.pending, pend{name: n, call: call})
		if cs.resultBool {
			return val{lean: "(" + n + " = true)", isBool: true}
		}
		return val{lean: n, typ: cs.result, idxOf: cs.resultIndex}
	}
	if cs.resultBool {
		return val{lean: "(" + call + " = true)", isBool: true}
	}
	return val{lean: call, typ: cs.result, idxOf: cs.resultIndex}
}

func (t *fnTrans) call(x *ast.CallExpr, en *env) val {
	if x.Ellipsis != token.NoPos {
		fail("call with ...")
	}
	switch f := x.Fun.(type) {
	case *ast.Ident:
		if _, shadow := en.vars[f.Name]; shadow {
			fail("call of the local %s", f.Name)
		}
		switch f.Name {
		case "min", "max":
			return t.minmax(f.Name, x.Args, en)
		case "len":
			if len(x.Args) != 1 {
				fail("len arity")
			}
			it := basicTypes["int"]
			if id, ok := x.Args[0].(*ast.Ident); ok {
				if v, ok := en.vars[id.Name]; ok && v.slice {
					return val{lean: v.lean, typ: &it}
				}
			}
			if s, ok := x.Args[0].(*ast.SelectorExpr); ok && t.isRecv(s.X) {
				rp := t.useRecv("len", s.Sel.Name)
				return val{lean: rp.lean, typ: rp.typ}
			}
			fail("len of something other than a slice/string parameter or receiver field")
		case "panic":
			fail("panic(...) in expression position")
		}
		if g := t.c.resolveType(f, 0); g != nil {
			if len(x.Args) != 1 {
				fail("conversion arity")
			}
			return t.convert(g, t.intExpr(x.Args[0], en))
		}
		if _, ok := t.c.opt.externs[f.Name]; ok {
			return t.externCall(f.Name, x.Args, en)
		}
		if _, ok := t.c.funcs[f.Name]; ok {
			return t.localCall(f.Name, false, x.Args, en)
		}
		fail("call of %s: not a function of this package, a conversion or a declared extern", f.Name)
	case *ast.SelectorExpr:
		if t.isRecv(f.X) {
			if _, isField := t.fields[f.Sel.Name]; isField {
				if len(x.Args) != 0 {
					fail("call of the func-typed field %s with arguments", f.Sel.Name)
				}
				rp := t.useRecv("func", f.Sel.Name)
				return val{lean: rp.lean, typ: rp.typ}
			}
			key := t.recvType + "." + f.Sel.Name
			if _, ok := t.c.funcs[key]; ok {
				return t.localCall(key, true, x.Args, en)
			}
			fail("method %s is not declared in this package", key)
		}
		if k, ok := selKey(f); ok && t.isImportAlias(strings.SplitN(k, ".", 2)[0], en) {
			if g := t.c.typeByName(k); g != nil {
				if len(x.Args) != 1 {
					fail("conversion arity")
				}
				return t.convert(g, t.intExpr(x.Args[0], en))
			}
			if _, ok := t.c.opt.externs[k]; ok {
				return t.externCall(k, x.Args, en)
			}
			fail("%s: function or type of another package that was not declared with -extern / -type", k)
		}
		recv := t.expr(f.X, en)
		if v, ok := t.builtinMethod(recv, f.Sel.Name, x.Args, en); ok {
			return v
		}
		if recv.typ != nil {
			fail("method %s.%s is outside the subset", recv.typ.name, f.Sel.Name)
		}
		fail("method call .%s on a value without an integer type", f.Sel.Name)
	}
	fail("call of a computed function")
	return val{}
}

// ---------------------------------------------------------------- statements

func (t *fnTrans) take(mark int) []pend {
	ps := append([]pend(nil), t.pending[mark:]...)
	t.pending = t.pending[:mark]
	return ps
}

func wrapPend(ps []pend, body ir) ir {
	for i := len(ps) - 1; i >= 0; i-- {
		if ps[i].guard != "" {
			body = irGuard{ps[i].guard, body}
		} else {
			body = irBind{ps[i].name, ps[i].call, body}
		}
	}
	return body
}

// finish: the value of one terminated path.  The receiver fields that are outputs (assigned on
// ANY path) are added when printing (retString): on this path each is its current binding.
func (t *fnTrans) finish(en *env, result *val) ir {
	r := irRet{writes: append([]string(nil), en.writes...)}
	if result != nil {
		r.outs = append(r.outs, result.lean)
	}
	return r
}

func (t *fnTrans) assignTarget(lhs ast.Expr, en *env) (kind string, name string, typ *gtype, idx ast.Expr) {
	switch l := lhs.(type) {
	case *ast.Ident:
		v, ok := en.vars[l.Name]
		if !ok {
			fail("assignment to %s, which is not a local or parameter", l.Name)
		}
		if v.slice {
			fail("assignment to the slice/string %s", l.Name)
		}
		return "var", l.Name, v.typ, nil
	case *ast.SelectorExpr:
		if t.isRecv(l.X) {
			if !t.recvPtr {
				fail("assignment to a field of a value receiver (lost on return)")
			}
			rp := t.useRecv("field", l.Sel.Name)
			if rp.isBool {
				fail("assignment to the bool field %s", l.Sel.Name)
			}
			return "field", l.Sel.Name, rp.typ, nil
		}
	case *ast.IndexExpr:
		if id, ok := l.X.(*ast.Ident); ok {
			if v, ok := en.vars[id.Name]; ok && v.slice && v.bytes {
				if t.storeParam != "" && t.storeParam != id.Name {
					fail("stores into more than one slice parameter")
				}
				t.storeParam = id.Name
				g := basicTypes["uint8"]
				return "store", id.Name, &g, l.Index
			}
		}
	}
	fail("assignment target outside the subset")
	return
}

var assignOps = map[token.Token]token.Token{token.ADD_ASSIGN: token.ADD, token.SUB_ASSIGN: token.SUB, token.MUL_ASSIGN: token.MUL,
	token.QUO_ASSIGN: token.QUO, token.REM_ASSIGN: token.REM, token.AND_ASSIGN: token.AND, token.OR_ASSIGN: token.OR,
	token.XOR_ASSIGN: token.XOR}

func (t *fnTrans) stmts(list []ast.Stmt, en *env) ir {
	if len(list) == 0 {
		if t.result != nil || t.resultBool || t.resultStruct != "" {
			fail("control reaches the end of a function that returns a value")
		}
		return t.finish(en, nil)
	}
	s, rest := list[0], list[1:]
	mark := len(t.pending)
	switch x := s.(type) {
	case *ast.EmptyStmt:
		return t.stmts(rest, en)
	case *ast.BlockStmt:
		return t.stmts(append(append([]ast.Stmt(nil), x.List...), rest...), en)
	case *ast.ReturnStmt:
		if t.resultStruct != "" {
			return t.returnStruct(x, en, mark)
		}
		if t.result == nil && !t.resultBool {
			if len(x.Results) != 0 {
				fail("return with a value in a function without result")
			}
			return t.finish(en, nil)
		}
		if len(x.Results) != 1 {
			fail("return arity")
		}
		if t.resultBool {
			p := t.boolExpr(x.Results[0], en)
			ps := t.take(mark)
			v := val{lean: "(decide " + p + ")"}
			return wrapPend(ps, t.finish(en, &v))
		}
		if t.resultIndex != "" {
			return t.returnIndex(x.Results[0], en, mark)
		}
		v := t.intExpr(x.Results[0], en)
		if v.typ != nil && (v.typ.bits != t.result.bits || v.typ.signed != t.result.signed) {
			fail("returned value has type %s, result type is %s", v.typ.name, t.result.name)
		}
		if v.c != nil {
			v = constVal(v.c, t.result)
		}
		ps := t.take(mark)
		return wrapPend(ps, t.finish(en, &v))
	case *ast.ExprStmt:
		if c, ok := x.X.(*ast.CallExpr); ok {
			if id, ok := c.Fun.(*ast.Ident); ok && id.Name == "panic" {
				if _, shadow := en.vars["panic"]; !shadow {
					return irPanic{} // the argument is not evaluated: the outcome is `panic` either way
				}
			}
		}
		fail("expression statement outside the subset (only panic(...) is accepted)")
	case *ast.IfStmt:
		if x.Init != nil {
			fail("if with an init statement")
		}
		cond := t.boolExpr(x.Cond, en)
		ps := t.take(mark)
		thenL := append(append([]ast.Stmt(nil), x.Body.List...), rest...)
		var elseL []ast.Stmt
		switch e := x.Else.(type) {
		case nil:
			elseL = rest
		case *ast.BlockStmt:
			elseL = append(append([]ast.Stmt(nil), e.List...), rest...)
		case *ast.IfStmt:
			elseL = append([]ast.Stmt{e}, rest...)
		default:
			fail("else branch of kind %T", x.Else)
		}
		th := t.stmts(thenL, en.copy())
		el := t.stmts(elseL, en.copy())
		return wrapPend(ps, irIf{cond, th, el})
	case *ast.DeclStmt:
		gd, ok := x.Decl.(*ast.GenDecl)
		if !ok || gd.Tok != token.VAR || len(gd.Specs) != 1 {
			fail("declaration statement outside the subset")
		}
		vs := gd.Specs[0].(*ast.ValueSpec)
		if len(vs.Names) != 1 || len(vs.Values) > 1 {
			fail("var declaration with several names")
		}
		var v val
		var g *gtype
		if vs.Type != nil {
			g = t.c.resolveType(vs.Type, 0)
			if g == nil {
				fail("var %s: not an integer type", vs.Names[0].Name)
			}
		}
		if len(vs.Values) == 1 {
			v = t.intExpr(vs.Values[0], en)
			if g != nil && v.c != nil {
				v = constVal(v.c, g)
			}
		} else {
			if g == nil {
				fail("var without type or value")
			}
			v = constVal(constant.MakeInt64(0), g)
		}
		return t.bindLocal(vs.Names[0].Name, v, true, mark, rest, en)
	case *ast.IncDecStmt:
		op := token.ADD
		if x.Tok == token.DEC {
			op = token.SUB
		}
		return t.assign(x.X, func(cur val) val { return t.arith(op, cur, val{lean: "1", c: constant.MakeInt64(1)}) }, mark, rest, en)
	case *ast.AssignStmt:
		if len(x.Lhs) != 1 || len(x.Rhs) != 1 {
			fail("assignment with several operands")
		}
		switch x.Tok {
		case token.DEFINE:
			id, ok := x.Lhs[0].(*ast.Ident)
			if !ok {
				fail(":= target")
			}
			v := t.intExpr(x.Rhs[0], en)
			return t.bindLocal(id.Name, v, true, mark, rest, en)
		case token.ASSIGN:
			return t.assign(x.Lhs[0], func(val) val { return t.intExpr(x.Rhs[0], en) }, mark, rest, en)
		case token.SHL_ASSIGN, token.SHR_ASSIGN:
			op := token.SHL
			if x.Tok == token.SHR_ASSIGN {
				op = token.SHR
			}
			return t.assign(x.Lhs[0], func(cur val) val {
				// reuse binary(): build the value by hand
				k := t.intExpr(x.Rhs[0], en)
				if k.c == nil {
					fail("shift by a non-constant count")
				}
				kb := bigOf(k.c)
				if kb.Sign() < 0 || kb.Cmp(big.NewInt(4096)) > 0 {
					fail("shift count")
				}
				if op == token.SHR {
					return val{lean: fmt.Sprintf("(%s / %s)", cur.lean, pow2(kb.Int64())), typ: cur.typ}
				}
				return val{lean: fmt.Sprintf("(%s (%s * %s))", cur.typ.wrap(), cur.lean, pow2(kb.Int64())), typ: cur.typ}
			}, mark, rest, en)
		default:
			op, ok := assignOps[x.Tok]
			if !ok {
				fail("assignment operator %s", x.Tok)
			}
			return t.assign(x.Lhs[0], func(cur val) val { return t.arith(op, cur, t.intExpr(x.Rhs[0], en)) }, mark, rest, en)
		}
	}
	fail("statement of kind %T is outside the subset", s)
	return nil
}

// returnStruct: `return S{F: e, …}, nil` / `return recv, nil` / `return <anything>, errors.New(…)|fmt.Errorf(…)`
func (t *fnTrans) returnStruct(x *ast.ReturnStmt, en *env, mark int) ir {
	if len(x.Results) != 2 {
		fail("return arity")
	}
	switch e := x.Results[1].(type) {
	case *ast.Ident:
		if e.Name != "nil" || en.vars["nil"] != nil {
			fail("error result that is neither nil nor errors.New / fmt.Errorf")
		}
	case *ast.CallExpr:
		k, ok := selKey(e.Fun)
		if !ok || (k != "errors.New" && k != "fmt.Errorf") || !t.isImportAlias(strings.SplitN(k, ".", 2)[0], en) {
			fail("error result that is neither nil nor errors.New / fmt.Errorf")
		}
		return irReject{} // errors.New / fmt.Errorf never return nil; their arguments are not evaluated here
	default:
		fail("error result that is neither nil nor errors.New / fmt.Errorf")
	}
	vals := map[string]string{}
	switch v := x.Results[0].(type) {
	case *ast.CompositeLit:
		id, ok := v.Type.(*ast.Ident)
		if !ok || id.Name != t.resultStruct {
			fail("composite literal of another type")
		}
		for _, f := range t.resultFields {
			vals[f] = "0"
		}
		for _, el := range v.Elts {
			kv, ok := el.(*ast.KeyValueExpr)
			if !ok {
				fail("composite literal without field names")
			}
			kid, ok := kv.Key.(*ast.Ident)
			if !ok || t.resultFTypes[kid.Name] == nil {
				fail("composite literal key")
			}
			vals[kid.Name] = t.coerce(t.intExpr(kv.Value, en), t.resultFTypes[kid.Name], "field "+kid.Name).lean
		}
	case *ast.Ident:
		if !t.isRecv(v) || t.recvType != t.resultStruct {
			fail("struct result that is neither a composite literal nor the receiver")
		}
		for _, f := range t.resultFields {
			vals[f] = t.useRecv("field", f).lean
		}
	default:
		fail("struct result that is neither a composite literal nor the receiver")
	}
	ps := t.take(mark)
	r := irRet{writes: append([]string(nil), en.writes...)}
	for _, f := range t.resultFields {
		r.outs = append(r.outs, vals[f])
	}
	return wrapPend(ps, r)
}

// returnIndex: `return &recv.field[i]` (value: the index i, after Go's bounds check against len(recv.field)),
// or `return recv.M(...)` where M returns such a pointer into the same field
func (t *fnTrans) returnIndex(e ast.Expr, en *env, mark int) ir {
	setField := func(f string) {
		if t.resultIndex != "?" && t.resultIndex != f {
			fail("pointer results into different fields (%s, %s)", t.resultIndex, f)
		}
		t.resultIndex = f
	}
	if u, ok := e.(*ast.UnaryExpr); ok && u.Op == token.AND {
		if ix, ok := u.X.(*ast.IndexExpr); ok {
			if s, ok := ix.X.(*ast.SelectorExpr); ok && t.isRecv(s.X) {
				ln := t.useRecv("len", s.Sel.Name)
				if _, isArr := t.fields[s.Sel.Name].(*ast.ArrayType); !isArr {
					fail("&recv.%s[i]: not a slice field", s.Sel.Name)
				}
				setField(s.Sel.Name)
				i := t.intExpr(ix.Index, en)
				if i.typ == nil {
					it := basicTypes["int"]
					i = constVal(i.c, &it)
				}
				ps := t.take(mark)
				n := t.fresh("r_")
				guard := fmt.Sprintf("(0 ≤ %s ∧ %s < %s)", n, n, ln.lean)
				v := val{lean: n}
				return wrapPend(ps, irLet{n, i.lean, irGuard{guard, t.finish(en, &v)}})
			}
		}
	}
	if _, ok := e.(*ast.CallExpr); ok {
		v := t.expr(e, en)
		if v.idxOf == "" || v.isBool {
			fail("pointer result that is not `&recv.field[i]`")
		}
		setField(v.idxOf)
		ps := t.take(mark)
		v.idxOf = ""
		return wrapPend(ps, t.finish(en, &v))
	}
	fail("pointer result that is not `&recv.field[i]` or a call returning one")
	return nil
}

// bindLocal: `name := v` (declare) — the local's type is the value's type (an untyped constant
// becomes int, as in Go)
func (t *fnTrans) bindLocal(name string, v val, declare bool, mark int, rest []ast.Stmt, en *env) ir {
	if name == "_" {
		ps := t.take(mark)
		return wrapPend(ps, t.stmts(rest, en))
	}
	if _, exists := en.vars[name]; exists && declare {
		fail("%s is declared again (shadowing is outside the subset)", name)
	}
	if t.isRecvName(name) {
		fail("%s shadows the receiver", name)
	}
	ty := v.typ
	if ty == nil {
		it := basicTypes["int"]
		ty = &it
		v = constVal(v.c, ty)
	}
	ln := t.leanIdent(name)
	t.leanNames[ln] = true
	ps := t.take(mark)
	en.vars[name] = &gvar{lean: ln, typ: ty}
	return wrapPend(ps, irLet{ln, v.lean, t.stmts(rest, en)})
}

func (t *fnTrans) assign(lhs ast.Expr, rhs func(cur val) val, mark int, rest []ast.Stmt, en *env) ir {
	kind, name, ty, idx := t.assignTarget(lhs, en)
	switch kind {
	case "var":
		cur := val{lean: en.vars[name].lean, typ: ty}
		v := rhs(cur)
		v = t.coerce(v, ty, "assignment to "+name)
		ps := t.take(mark)
		return wrapPend(ps, irLet{en.vars[name].lean, v.lean, t.stmts(rest, en)})
	case "field":
		rp := t.useRecv("field", name)
		v := rhs(val{lean: rp.lean, typ: ty})
		v = t.coerce(v, ty, "assignment to field "+name)
		t.written[name] = true
		ps := t.take(mark)
		return wrapPend(ps, irLet{rp.lean, v.lean, t.stmts(rest, en)})
	case "store":
		i := t.intExpr(idx, en)
		if i.typ == nil {
			it := basicTypes["int"]
			i = constVal(i.c, &it)
		}
		v := rhs(val{})
		v = t.coerce(v, ty, "store")
		ps := t.take(mark)
		w := t.fresh("w_")
		lenName := en.vars[name].lean
		en.writes = append(en.writes, w)
		guard := fmt.Sprintf("(0 ≤ %s ∧ %s < %s)", i.lean, i.lean, lenName)
		if i.c != nil && bigOf(i.c).Sign() >= 0 {
			guard = fmt.Sprintf("(%s < %s)", i.lean, lenName)
		}
		return wrapPend(ps, irGuard{guard, irLet{w, fmt.Sprintf("(%s, %s)", i.lean, v.lean), t.stmts(rest, en)}})
	}
	fail("internal: assignment kind")
	return nil
}

func (t *fnTrans) coerce(v val, ty *gtype, what string) val {
	if v.isBool {
		fail("%s: boolean value", what)
	}
	if v.typ == nil {
		return constVal(v.c, ty)
	}
	if v.typ.bits != ty.bits || v.typ.signed != ty.signed {
		fail("%s: value of type %s, target of type %s", what, v.typ.name, ty.name)
	}
	return v
}

// ---------------------------------------------------------------- printing

func (s *fnSig) retString(r irRet) string {
	var parts []string
	if s.hasStores {
		parts = append(parts, "["+strings.Join(r.writes, ", ")+"]")
	}
	for _, f := range s.written {
		for _, rp := range s.recvParams {
			if rp.kind == "field" && rp.field == f {
				parts = append(parts, rp.lean)
			}
		}
	}
	parts = append(parts, r.outs...)
	v := "()"
	if len(parts) == 1 {
		v = parts[0]
	} else if len(parts) > 1 {
		v = "(" + strings.Join(parts, ", ") + ")"
	}
	if s.impure {
		return "Res.ok " + v
	}
	return v
}

func (s *fnSig) print(b *strings.Builder, x ir, ind string) {
	switch n := x.(type) {
	case irLet:
		fmt.Fprintf(b, "%slet %s := %s\n", ind, n.name, n.expr)
		s.print(b, n.body, ind)
	case irIf:
		fmt.Fprintf(b, "%sif %s then\n", ind, n.cond)
		s.print(b, n.then, ind+"  ")
		fmt.Fprintf(b, "%selse\n", ind)
		s.print(b, n.els, ind+"  ")
	case irGuard:
		fmt.Fprintf(b, "%sif ¬ %s then Res.panic else\n", ind, n.cond)
		s.print(b, n.body, ind)
	case irBind:
		fmt.Fprintf(b, "%sHy.Res.bind %s fun %s =>\n", ind, n.call, n.name)
		s.print(b, n.body, ind)
	case irPanic:
		fmt.Fprintf(b, "%sRes.panic\n", ind)
	case irReject:
		fmt.Fprintf(b, "%sRes.reject\n", ind)
	case irRet:
		fmt.Fprintf(b, "%s%s\n", ind, s.retString(n))
	}
}

func (s *fnSig) outType() string {
	var parts []string
	if s.hasStores {
		parts = append(parts, "List (Int × Int)")
	}
	for range s.written {
		parts = append(parts, "Int")
	}
	if s.result != nil {
		parts = append(parts, "Int")
	}
	if s.resultBool {
		parts = append(parts, "Bool")
	}
	for range s.resultFields {
		parts = append(parts, "Int")
	}
	ty := "Unit"
	if len(parts) > 0 {
		ty = strings.Join(parts, " × ")
	}
	if s.impure {
		return "Res (" + ty + ")"
	}
	return ty
}

func quoteGo(src string) string {
	src = strings.ReplaceAll(src, "/-", "/ -")
	src = strings.ReplaceAll(src, "-/", "- /")
	return src
}

func (s *fnSig) emit(b *strings.Builder, c *pkgCtx) {
	fmt.Fprintf(b, "/- %s:%d-%d\n\n", s.file, s.line0, s.line1)
	for _, ln := range strings.Split(quoteGo(s.src), "\n") {
		fmt.Fprintf(b, "    %s\n", ln)
	}
	fmt.Fprintf(b, "\n   parameters, in order:\n")
	var binders []string
	for _, p := range s.recvParams {
		fmt.Fprintf(b, "     %-28s receiver %s.%s: %s\n", p.lean, s.recvType, p.field, p.note)
		ty := "Int"
		if p.isBool {
			ty = "Bool"
		}
		binders = append(binders, fmt.Sprintf("(%s : %s)", p.lean, ty))
	}
	for _, p := range s.params {
		fmt.Fprintf(b, "     %-28s parameter %s: %s\n", p.lean, p.goName, p.note)
		ty := "Int"
		if p.isBool {
			ty = "Bool"
		}
		binders = append(binders, fmt.Sprintf("(%s : %s)", p.lean, ty))
	}
	for _, k := range s.extConsts {
		g := c.typeByName(c.opt.consts[k])
		fmt.Fprintf(b, "     %-28s constant %s of another package, %s\n", extLean(k), k, g.desc())
		binders = append(binders, fmt.Sprintf("(%s : Int)", extLean(k)))
	}
	for _, k := range s.extFuncs {
		sg := c.opt.externs[k]
		fmt.Fprintf(b, "     %-28s function %s(%s) %s, a parameter (assumed total)\n", extLean(k), k, strings.Join(sg.args, ", "), sg.ret)
		ty := strings.Repeat("Int → ", len(sg.args)) + "Int"
		binders = append(binders, fmt.Sprintf("(%s : %s)", extLean(k), ty))
	}
	var outs []string
	if s.hasStores {
		outs = append(outs, "stores into the slice parameter as (index, byte), program order")
	}
	for _, f := range s.written {
		outs = append(outs, "final value of field "+f)
	}
	if s.resultIndex != "" {
		outs = append(outs, "result `&recv."+s.resultIndex+"[i]`: the index i, bounds-checked against len(recv."+s.resultIndex+")")
	} else if s.result != nil {
		outs = append(outs, "result, "+s.result.desc())
	}
	if s.resultBool {
		outs = append(outs, "result, bool")
	}
	if s.resultStruct != "" {
		outs = append(outs, "result ("+s.resultStruct+", error): the fields "+strings.Join(s.resultFields, ", ")+" (alphabetical) when the error is nil, `Res.reject` when it is not")
	}
	if len(outs) == 0 {
		outs = []string{"nothing"}
	}
	fmt.Fprintf(b, "   value: %s", strings.Join(outs, " × "))
	if s.impure {
		fmt.Fprintf(b, "; `Res.panic` on every path on which the Go code panics")
	}
	fmt.Fprintf(b, " -/\n")
	fmt.Fprintf(b, "def %s", s.leanName)
	if len(binders) > 0 {
		fmt.Fprintf(b, " %s", strings.Join(binders, " "))
	}
	fmt.Fprintf(b, " : %s :=\n", s.outType())
	s.print(b, s.body, "  ")
	fmt.Fprintf(b, "\n")
}

// ---------------------------------------------------------------- command line

func translateMain(args []string) {
	if len(args) < 2 {
		fmt.Fprintln(os.Stderr, "usage: verifgen translate <repo root> -name N [-type p.T=int64] [-const p.C=type] [-extern [p.]F=a,b:r] <file>:<func>...")
		os.Exit(2)
	}
	root := args[0]
	opt := &options{types: map[string]string{}, consts: map[string]string{}, externs: map[string]externSig{}}
	var targets []string
	for i := 1; i < len(args); i++ {
		a := args[i]
		next := func() (string, string) {
			i++
			if i >= len(args) {
				fmt.Fprintln(os.Stderr, "translate: missing value after", a)
				os.Exit(2)
			}
			k, v, ok := strings.Cut(args[i], "=")
			if !ok && a != "-name" {
				fmt.Fprintln(os.Stderr, "translate: want key=value after", a)
				os.Exit(2)
			}
			return k, v
		}
		switch a {
		case "-name":
			opt.name, _ = next()
		case "-type":
			k, v := next()
			opt.types[k] = v
		case "-const":
			k, v := next()
			opt.consts[k] = v
		case "-extern":
			k, v := next()
			as, r, ok := strings.Cut(v, ":")
			if !ok {
				fmt.Fprintln(os.Stderr, "translate: -extern F=argtypes:rettype")
				os.Exit(2)
			}
			sg := externSig{ret: r}
			if as != "" {
				sg.args = strings.Split(as, ",")
			}
			opt.externs[k] = sg
		default:
			targets = append(targets, a)
		}
	}
	if opt.name == "" || len(targets) == 0 {
		fmt.Fprintln(os.Stderr, "translate: -name and at least one <file>:<func> are required")
		os.Exit(2)
	}
	pkgs := map[string]*pkgCtx{}
	var pkgOrder []string
	failed := 0
	var failNotes []string
	for _, tg := range targets {
		file, fn, ok := strings.Cut(tg, ":")
		if !ok {
			fmt.Fprintln(os.Stderr, "translate: target must be <file>:<func>:", tg)
			os.Exit(2)
		}
		dir := filepath.Dir(file)
		func() {
			defer func() {
				if r := recover(); r != nil {
					te, ok := r.(transErr)
					if !ok {
						panic(r)
					}
					failed++
					msg := fmt.Sprintf("%s: NOT TRANSLATED: %s", tg, te.msg)
					failNotes = append(failNotes, msg)
					fmt.Fprintln(os.Stderr, "translate:", msg)
				}
			}()
			c, ok := pkgs[dir]
			if !ok {
				c = loadPkg(root, dir, opt)
				pkgs[dir] = c
				pkgOrder = append(pkgOrder, dir)
			}
			if fd, ok := c.funcs[fn]; ok && fd != nil && c.funcFile[fn] != filepath.Base(file) {
				fail("%s is declared in %s, not in %s", fn, c.funcFile[fn], filepath.Base(file))
			}
			c.translate(fn)
		}()
	}
	var b strings.Builder
	fmt.Fprintf(&b, "/- REGENERATED from /repo on every run by `verifgen translate` (harness/gen/translate.go). Do not edit.\n")
	fmt.Fprintf(&b, "   Lean definitions translated from the CURRENT Go source of the functions quoted below; semantics of the\n")
	fmt.Fprintf(&b, "   integer operations: Hy/Base/GoInt.lean (fixed-width wrap-around explicit, int = int64, truncated signed\n")
	fmt.Fprintf(&b, "   division, a panic is `Res.panic`).  Declared on the command line (trusted, about other packages):\n")
	for _, k := range sortedKeys(opt.types) {
		fmt.Fprintf(&b, "     type %s = %s\n", k, opt.types[k])
	}
	for _, k := range sortedKeys(opt.consts) {
		fmt.Fprintf(&b, "     constant %s : %s (a parameter of the definitions)\n", k, opt.consts[k])
	}
	ek := make([]string, 0, len(opt.externs))
	for k := range opt.externs {
		ek = append(ek, k)
	}
	sort.Strings(ek)
	for _, k := range ek {
		fmt.Fprintf(&b, "     function %s(%s) %s (a parameter of the definitions)\n", k, strings.Join(opt.externs[k].args, ", "), opt.externs[k].ret)
	}
	fmt.Fprintf(&b, "   Built in: time.Duration = int64, Duration.Nanoseconds = identity, time.Nanosecond…Hour; monotime.Time\n")
	fmt.Fprintf(&b, "   (declared int64) Sub and Add = wrapped subtraction and addition, IsZero = (t = 0), After/Before/Equal = comparisons.\n")
	for _, n := range failNotes {
		fmt.Fprintf(&b, "   %s\n", quoteGo(n))
	}
	fmt.Fprintf(&b, "-/\nimport Hy.Base.Res\nimport Hy.Base.GoInt\nset_option linter.unusedVariables false\nnamespace Hy.Gen.Trans%s\nopen Hy Hy.GoInt\n\n", opt.name)
	for _, d := range pkgOrder {
		c := pkgs[d]
		for _, k := range c.order {
			c.done[k].emit(&b, c)
		}
	}
	fmt.Fprintf(&b, "end Hy.Gen.Trans%s\n", opt.name)
	fmt.Print(b.String())
	if failed > 0 {
		os.Exit(1)
	}
}

func sortedKeys(m map[string]string) []string {
	out := make([]string, 0, len(m))
	for k := range m {
		out = append(out, k)
	}
	sort.Strings(out)
	return out
}
