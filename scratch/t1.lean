import Hy.Model.BbrSampler
import Hy.Proofs.Pnq
namespace Hy.Sampler
open Hy Hy.Ring Hy.Pnq

example (a b : Int) : max a b ≥ a := by omega
example (x : Int) : u64 (i64 x) = u64 x := by
  simp only [u64, i64, two63, two64]; omega
example (bytes : Nat) (hb : bytes * 1000000000 < 2^64) : bytes < 18446744073709551616 := by omega

set_option pp.proofs false in
example (b : Sampler) (t pn : Int) : b.onPacketAcknowledged t pn = .panic := by
  unfold Sampler.onPacketAcknowledged
  trace_state
  sorry
