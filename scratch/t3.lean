import Hy.Proofs.BbrSampler
namespace Hy.Sampler
open Hy Hy.Ring Hy.Pnq

def ackUpd (b : Sampler) (ackTime pn : Int) (c : ConnState) : Sampler :=
  let b := { b with lastAckedPacket := pn }
  let b := { b with totalBytesAcked := i64 (b.totalBytesAcked + c.size),
                    totalBytesSentAtLastAckedPacket := c.sts.totalBytesSent,
                    lastAckedPacketSentTime := c.sentTime,
                    lastAckedPacketAckTime := ackTime }
  let b := if b.overestimateAvoidance then recentUpdate b ackTime b.totalBytesAcked else b
  if b.isAppLimited ∧ (b.endOfAppLimitedPhase = invalidPn ∨ pn > b.endOfAppLimitedPhase)
  then { b with isAppLimited := false } else b

def ackSendRate (c : ConnState) : Res Nat :=
  if c.sentTime > c.lastAckedPacketSentTime then
    bandwidthFromDelta (i64 (c.sts.totalBytesSent - c.totalBytesSentAtLastAckedPacket))
      (i64 (c.sentTime - c.lastAckedPacketSentTime))
  else pure infBandwidth

def ackA0 (c : ConnState) (b : Sampler) : Res (Sampler × AckPoint) :=
  if b.overestimateAvoidance then do
    let (b', p) ← b.chooseA0Point c.sts.totalBytesAcked
    match p with
    | some p => pure (b', p)
    | none => pure (b', ({ ackTime := c.lastAckedPacketAckTime, totalBytesAcked := c.sts.totalBytesAcked } : AckPoint))
  else pure (b, ({ ackTime := c.lastAckedPacketAckTime, totalBytesAcked := c.sts.totalBytesAcked } : AckPoint))

def ackFin (ackTime : Int) (c : ConnState) (sendRate : Nat) : Sampler × AckPoint → Res (Sampler × BandwidthSample)
  | (b, a0) =>
    if i64 (ackTime - a0.ackTime) ≤ 0 then pure (b, newBandwidthSample)
    else do
      let ackRate ← bandwidthFromDelta (i64 (b.totalBytesAcked - a0.totalBytesAcked)) (i64 (ackTime - a0.ackTime))
      pure (b, { bandwidth := min sendRate ackRate, rtt := i64 (ackTime - c.sentTime), sendRate := sendRate,
                 stateAtSend := toSendTimeState c })

theorem bind_ite {α β : Type} (c : Prop) [Decidable c] (a b : Res α) (f : α → Res β) :
    (if c then a else b).bind f = if c then a.bind f else b.bind f := by
  split <;> rfl

theorem onPacketAcknowledged_eq (b : Sampler) (t pn : Int) :
    b.onPacketAcknowledged t pn =
      (b.map.getEntry pn).bind fun e =>
        match e with
        | none => .ok ({ b with lastAckedPacket := pn }, newBandwidthSample)
        | some c =>
          if c.lastAckedPacketSentTime = 0 then .ok (ackUpd b t pn c, newBandwidthSample)
          else (ackSendRate c).bind fun sr => (ackA0 c (ackUpd b t pn c)).bind fun x => ackFin t c sr x := by
  unfold Sampler.onPacketAcknowledged
  cases b.map.getEntry pn with
  | panic => rfl
  | reject => rfl
  | ok e =>
    cases e with
    | none => rfl
    | some c =>
      simp only [Res.bind_eq, Res.pure_eq, Res.bind_ok]
      by_cases h0 : c.lastAckedPacketSentTime = 0
      · simp only [h0, ↓reduceIte]; rfl
      · simp only [h0, ↓reduceIte, ackSendRate, ackA0, bind_ite, Res.bind_eq, Res.pure_eq, Res.bind_ok]
        trace_state
        rfl
