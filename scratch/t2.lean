import Hy.Model.BbrSampler
import Hy.Proofs.Pnq
namespace Hy.Sampler
open Hy Hy.Ring Hy.Pnq
set_option pp.proofs false
set_option pp.structureInstances false in
example (b : Sampler) (t pn x y: Int) (r : Bool): b.onPacketSent t pn x y r = .panic := by
  unfold Sampler.onPacketSent
  trace_state
  sorry
example (b : Sampler) (t pn x y: Int) (r : Bool): b.chooseA0Point t = .panic := by
  unfold Sampler.chooseA0Point
  trace_state
  sorry
example (b : Sampler) (t pn x y: Nat) (r : Bool): b.onAckEventEnd t r x = .panic := by
  unfold Sampler.onAckEventEnd
  trace_state
  sorry
example (b : Sampler) (t : Int) (x y z: Nat) (r : Bool) (a l) : b.onCongestionEvent t a l x y z = .panic := by
  unfold Sampler.onCongestionEvent
  trace_state
  sorry
example (b : Sampler) (t : Int) (x y z: Nat) (r : Bool) (a l acc) : ackLoop t (a :: l) b acc = .panic := by
  unfold ackLoop
  trace_state
  sorry
