import Hy.Model.BbrSampler
import Hy.Proofs.Pnq
/-
  C12(c): proofs about the bandwidth-sampler model (Hy/Model/BbrSampler.lean), on top of the ring
  and packet-number-queue lemmas of layer (a).
-/
set_option linter.unusedSimpArgs false
set_option linter.unusedVariables false
set_option linter.unusedSectionVars false
namespace Hy.Sampler
open Hy Hy.Ring Hy.Pnq

/-! ### Go integer arithmetic -/

/-- `x` is an int64 value -/
def inI64 (x : Int) : Prop := -two63 ≤ x ∧ x < two63

theorem u64_i64 (x : Int) : u64 (i64 x) = u64 x := by
  simp only [u64, i64, two63, two64]; omega

theorem u64_le (x : Int) : u64 x ≤ maxU64 := by
  simp only [u64, two64, maxU64]; omega

/-- the only way `Bandwidth(int64 x)` is zero: `x` is a multiple of 2^64 -/
theorem u64_i64_eq_zero_iff (x : Int) : u64 (i64 x) = 0 ↔ x % two64 = 0 := by
  simp only [u64, i64, two63, two64]; omega

theorem u64_i64_ne_zero (x : Int) (h0 : 0 < x) (h1 : x < two64) : u64 (i64 x) ≠ 0 := by
  simp only [u64, i64, two63, two64] at *; omega

theorem u64_pos_i64 (x : Int) (h : ¬ i64 x ≤ 0) : u64 (i64 x) ≠ 0 := by
  simp only [u64, i64, two63, two64] at *; omega

theorem u64_natCast (n : Nat) (h : n < 18446744073709551616) : u64 (n : Int) = n := by
  simp only [u64, two64]; omega

theorem inI64_zero : inI64 0 := by simp only [inI64, two63]; omega

theorem bandwidthFromDelta_ok (bytes delta : Int) (h : u64 delta ≠ 0) :
    ∃ r, bandwidthFromDelta bytes delta = .ok r ∧ r ≤ maxU64 := by
  simp only [bandwidthFromDelta, h, ↓reduceIte]
  exact ⟨_, rfl, u64_le _⟩

theorem bandwidthFromDelta_le (bytes delta : Int) (r : Nat) (h : bandwidthFromDelta bytes delta = .ok r) :
    r ≤ maxU64 := by
  simp only [bandwidthFromDelta] at h
  split at h
  · cases h
  · cases h; exact u64_le _

/-- without wrap-around BandwidthFromDelta is the truncating quotient bytes·10^9/Δt·8 (bits per second) -/
theorem bandwidthFromDelta_exact (bytes delta : Nat) (hd : 0 < delta) (hd2 : delta < 2^63)
    (hb : bytes * 1000000000 < 2^64) (hr : bytes * 1000000000 / delta * 8 < 2^64) :
    bandwidthFromDelta (bytes : Int) (delta : Int) = .ok (bytes * 1000000000 / delta * 8) := by
  have h1 : u64 (delta : Int) = delta := u64_natCast _ (by omega)
  have h2 : u64 (bytes : Int) = bytes := u64_natCast _ (by omega)
  have h3 : u64 (((bytes : Nat) : Int) * 1000000000) = bytes * 1000000000 := by
    have : ((bytes : Nat) : Int) * 1000000000 = ((bytes * 1000000000 : Nat) : Int) := by omega
    rw [this]; exact u64_natCast _ (by omega)
  have h4 : u64 (((bytes * 1000000000 / delta : Nat) : Int) * 8) = bytes * 1000000000 / delta * 8 := by
    have : ((bytes * 1000000000 / delta : Nat) : Int) * 8 = ((bytes * 1000000000 / delta * 8 : Nat) : Int) := by
      omega
    rw [this]; exact u64_natCast _ (by omega)
  have hne : ¬ delta = 0 := by omega
  simp only [bandwidthFromDelta, h1, h2, h3, h4, hne, ↓reduceIte]

/-! ### `OkP P r`: `r` returns a value satisfying `P` -/

def OkP {α : Type} (P : α → Prop) (r : Res α) : Prop := ∃ a, r = .ok a ∧ P a

theorem OkP.ok {α : Type} {P : α → Prop} {a : α} (h : P a) : OkP P (.ok a) := ⟨a, rfl, h⟩

theorem OkP.bind {α β : Type} {Q : α → Prop} {P : β → Prop} {r : Res α} {f : α → Res β}
    (h1 : OkP Q r) (h2 : ∀ a, Q a → OkP P (f a)) : OkP P (r.bind f) := by
  obtain ⟨a, e, q⟩ := h1
  rw [e]; exact h2 a q

theorem bind_eq_ok {α β : Type} (r : Res α) (f : α → Res β) (b : β) :
    r.bind f = .ok b ↔ ∃ a, r = .ok a ∧ f a = .ok b := by
  cases r <;> simp [Res.bind]

/-! ### contents of the packet-number queue (what layer (a)'s specs leave implicit) -/

section Content
variable {α : Type} [Inhabited α]

theorem emplace_content {q : PNQ α} (h : Pnq.Inv q) (pn : Int) (v : α) (b : Bool) (q' : PNQ α)
    (he : q.emplace pn (some v) = .ok (b, q')) :
    ∃ g, q'.entries.toList = q.entries.toList ∨
      q'.entries.toList = q.entries.toList ++ List.replicate g default ++ [⟨true, v⟩] := by
  have hr := Inv.rel h.toInv0
  unfold PNQ.emplace at he
  by_cases hinv : pn = Pnq.invalidPn
  · simp only [hinv, ↓reduceIte] at he; cases he; exact ⟨0, Or.inl rfl⟩
  · simp only [hinv, ↓reduceIte] at he
    cases hemp : q.isEmpty with
    | true =>
      obtain ⟨e, h1, h2⟩ := rel_push hr (⟨true, v⟩ : Entry α)
      simp only [hemp, ↓reduceIte, h1, Res.bind_eq, Res.bind_ok, Res.pure_eq] at he
      cases he
      exact ⟨0, Or.inr (by simpa using h2.2)⟩
    | false =>
      simp only [hemp, Bool.false_eq_true, ↓reduceIte] at he
      by_cases hle : pn ≤ q.lastPacket
      · simp only [hle, ↓reduceIte] at he; cases he; exact ⟨0, Or.inl rfl⟩
      · simp only [hle, ↓reduceIte] at he
        by_cases hg0 : pn - q.first - (q.entries.len : Int) > 0
        · obtain ⟨e1, h1, h2⟩ := pushN_spec (pn - q.first - (q.entries.len : Int)).toNat _ _ hr
          obtain ⟨e2, h3, h4⟩ := rel_push h2 (⟨true, v⟩ : Entry α)
          simp only [hg0, ↓reduceIte, h1, h3, Res.bind_eq, Res.bind_ok, Res.pure_eq] at he
          cases he
          exact ⟨_, Or.inr h4.2⟩
        · obtain ⟨e2, h3, h4⟩ := rel_push hr (⟨true, v⟩ : Entry α)
          simp only [hg0, ↓reduceIte, h3, Res.bind_eq, Res.bind_ok, Res.pure_eq] at he
          cases he
          exact ⟨0, Or.inr (by simpa using h4.2)⟩

theorem removeUpTo_content {q : PNQ α} (h : Pnq.Inv q) (n : Int) (q' : PNQ α)
    (he : q.removeUpTo n = .ok q') : ∀ e ∈ q'.entries.toList, e ∈ q.entries.toList := by
  have hr := Inv.rel h.toInv0
  obtain ⟨q1, k, h1, h2, h3, h4, h5, h6⟩ :=
    removeLoop_spec n _ q.entries.len q hr (by rw [toList_length]; exact Nat.le_refl _) h.firstOk
  have hi0 : Inv0 q1 := by
    refine { wf := h3.1, census := ?_, firstOk := ?_ }
    · rw [h3.2, h4]
      have := nPresent_take_drop k q.entries.toList
      have := h.census
      omega
    · rw [h3.2]; intro hne
      have : q.entries.toList ≠ [] := by intro h0; rw [h0] at hne; simp at hne
      have := h.firstOk this
      omega
  obtain ⟨q2, h7, h8, h9, h10⟩ := clearup_spec hi0
  have : q.removeUpTo n = .ok q2 := by simp [PNQ.removeUpTo, h1, h7]
  rw [this] at he
  cases he
  intro e hmem
  rw [h9, h3.2] at hmem
  exact List.mem_of_mem_drop ((List.dropWhile_sublist _).subset hmem)

theorem getEntry_content {q : PNQ α} (h : Pnq.Inv q) (pn : Int) :
    q.getEntry pn = .ok none ∨
    ∃ e, e ∈ q.entries.toList ∧ e.present = true ∧ q.getEntry pn = .ok (some e.val) := by
  unfold PNQ.getEntry
  rcases getWrapper_spec h pn with h1 | ⟨i, hi, _, hp, h1⟩
  · left; simp [h1]
  · right
    exact ⟨q.entries.toList[i], List.getElem_mem hi, hp, by simp [h1]⟩

end Content
def ackUpd (b : Sampler) (ackTime pn : Int) (c : ConnState) : Sampler :=
  let b := { b with lastAckedPacket := pn }
  let b := { b with totalBytesAcked := i64 (b.totalBytesAcked + c.size),
                    totalBytesSentAtLastAckedPacket := c.sts.totalBytesSent,
                    lastAckedPacketSentTime := c.sentTime,
                    lastAckedPacketAckTime := ackTime }
  let b := if b.overestimateAvoidance then recentUpdate b ackTime b.totalBytesAcked else b
  if b.isAppLimited ∧ (b.endOfAppLimitedPhase = invalidPn ∨ pn > b.endOfAppLimitedPhase)
  then { b with isAppLimited := false } else b

def ackFin (ackTime : Int) (c : ConnState) (sendRate : Nat) (b : Sampler) (a0 : AckPoint) :
    Res (Sampler × BandwidthSample) :=
  if i64 (ackTime - a0.ackTime) ≤ 0 then .ok (b, newBandwidthSample)
  else
    (bandwidthFromDelta (i64 (b.totalBytesAcked - a0.totalBytesAcked)) (i64 (ackTime - a0.ackTime))).bind
      fun ackRate =>
        .ok (b, { bandwidth := min sendRate ackRate, rtt := i64 (ackTime - c.sentTime), sendRate := sendRate,
                  stateAtSend := toSendTimeState c })

def ackRest (ackTime : Int) (c : ConnState) (sendRate : Nat) (b : Sampler) : Res (Sampler × BandwidthSample) :=
  if b.overestimateAvoidance then
    (b.chooseA0Point c.sts.totalBytesAcked).bind fun x =>
      match x.2 with
      | some p => ackFin ackTime c sendRate x.1 p
      | none => ackFin ackTime c sendRate x.1
          { ackTime := c.lastAckedPacketAckTime, totalBytesAcked := c.sts.totalBytesAcked }
  else ackFin ackTime c sendRate b { ackTime := c.lastAckedPacketAckTime, totalBytesAcked := c.sts.totalBytesAcked }

theorem onPacketAcknowledged_eq (b : Sampler) (t pn : Int) :
    b.onPacketAcknowledged t pn =
      (b.map.getEntry pn).bind fun e =>
        match e with
        | none => .ok ({ b with lastAckedPacket := pn }, newBandwidthSample)
        | some c =>
          if c.lastAckedPacketSentTime = 0 then .ok (ackUpd b t pn c, newBandwidthSample)
          else if c.sentTime > c.lastAckedPacketSentTime then
            (bandwidthFromDelta (i64 (c.sts.totalBytesSent - c.totalBytesSentAtLastAckedPacket))
              (i64 (c.sentTime - c.lastAckedPacketSentTime))).bind fun sr => ackRest t c sr (ackUpd b t pn c)
          else ackRest t c infBandwidth (ackUpd b t pn c) := by
  rfl
end Hy.Sampler
