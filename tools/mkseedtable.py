#!/usr/bin/env python3
"""Rewrite the seeds table in DESIGN.md (section 0.5) from seeded/<id>/{meta,result}.json."""
import glob, json, os, re
V = os.path.dirname(os.path.dirname(os.path.abspath(__file__)))
rows = []
stats = {"concrete": 0, "tie": 0, "other": 0, "missed": 0}
for m in sorted(glob.glob(os.path.join(V, "seeded", "C??-*", "meta.json"))):
    d = os.path.dirname(m)
    meta = json.load(open(m))
    needs = meta.get("needs_to_manifest", "")
    if needs.startswith("see notes") and os.path.exists(os.path.join(d, "notes.md")):
        t = open(os.path.join(d, "notes.md")).read().splitlines()[0]
        needs = re.sub(r"^#\s*Seed\s*C\d\d-\w+\s*(/\s*\w+\s*\d*)?\s*[:—-]\s*", "", t).lstrip("# ").strip()
    needs = needs.replace("|", "/")
    res = json.load(open(os.path.join(d, "result.json"))) if os.path.exists(os.path.join(d, "result.json")) else None
    if res is None:
        r = "not run"; stats["missed"] += 1
    elif res.get("concrete_replay"):
        r = "concrete replay"; stats["concrete"] += 1
    elif res.get("caught"):
        r = "obligation only (no-failing-input-found)"; stats["tie"] += 1
    else:
        other = [p for p, x in res.get("results", {}).items() if p != meta["property"] and x.get("rc") == 1]
        if other:
            conc = any("VIOLATION" in l and "no-failing-input-found" not in l for p in other for l in res["results"][p]["lines"])
            r = "own check passes; caught by %s's check (%s) — see meta.json" % ("/".join(other), "concrete replay" if conc else "obligation")
            stats["other"] += 1
        else:
            r = "MISSED"; stats["missed"] += 1
    rows.append("   | %s | %s | %s |" % (meta["id"], needs[:330], r))
p = os.path.join(V, "DESIGN.md")
s = open(p).read()
a = s.index("   | Seed | Needs | Result")
b = s.index("\n\n", a)
hdr = "   | Seed | Needs | Result of the property's own check (quick tier, final tree) |\n   |---|---|---|\n"
s = s[:a] + hdr + "\n".join(rows) + s[b:]
open(p, "w").write(s)
print(len(rows), stats)
