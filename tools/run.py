#!/usr/bin/env python3
"""Entry point of every registered check:  python3 tools/run.py Cxx --tier quick|thorough [--replay FILE]"""
import argparse
import importlib
import os
import sys

sys.path.insert(0, os.path.dirname(os.path.abspath(__file__)))
from hv import check as K  # noqa: E402


def main():
    ap = argparse.ArgumentParser()
    ap.add_argument("prop")
    ap.add_argument("--tier", default=os.environ.get("VERIF_TIER", "quick"), choices=["quick", "thorough"])
    ap.add_argument("--replay", default=None)
    a = ap.parse_args()
    try:
        seed = int(os.environ.get("VERIF_SEED", "1"))
    except ValueError:
        seed = 1
    mod = importlib.import_module("hv.props." + a.prop)
    sys.exit(K.check(a.prop, mod.CFG, a.tier, seed, replay=a.replay))


if __name__ == "__main__":
    main()
