#!/usr/bin/env python3
"""Print the per-property index (Markdown) for DESIGN.md section 0.8 from the Props files,
the per-property configuration and the committed evidence."""
import importlib, json, os, re, sys
HERE = os.path.dirname(os.path.abspath(__file__)); VERIF = os.path.dirname(HERE)
sys.path.insert(0, HERE)
from hv import common as C  # noqa
ids = [json.loads(l)["id"] for l in open(os.path.join(VERIF, "properties.jsonl"))]
titles = {json.loads(l)["id"]: json.loads(l)["title"] for l in open(os.path.join(VERIF, "properties.jsonl"))}
for pid in ids:
    try:
        m = importlib.import_module("hv.props." + pid)
    except Exception:
        continue
    cfg = m.CFG
    mods = [cfg["props_module"]] + list(cfg.get("extra_props_modules", []))
    thms = []
    for pm in mods:
        thms += [t.split(".")[-1] for t in C.theorems_of(pm)]
    models = sorted({x.split(".")[-1] for pm in mods for x in C.transitive_imports(pm) if ".Model." in x})
    ev = {}
    try:
        ev = json.load(open(os.path.join(VERIF, "evidence", pid + ".json")))
    except Exception:
        pass
    streams = []
    for s in cfg.get("streams", []):
        streams.append("%s%s (%d/%d)" % (s["component"], " [go test]" if s.get("kind") == "gotest" else "", s["n"]["quick"], s["n"]["thorough"]))
    print("**%s — %s.** Models: %s. %d theorems: %s. Streams (quick/thorough cases): %s. Regenerated facts: %s. Last quick run: %s cases, %.0f s.\n" % (
        pid, titles[pid], ", ".join(models), len(thms), ", ".join("`%s`" % t for t in thms), "; ".join(streams),
        ", ".join(["constants of " + "/".join(cfg.get("gen_modules", []))] + [h.__name__ for h in cfg.get("gen_hooks", [])]) or "-",
        ev.get("coverage", {}).get("evaluations", "?"), ev.get("wall_s", 0)))
