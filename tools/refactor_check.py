#!/usr/bin/env python3
"""False-alarm sweep (support tooling): apply each behaviour-preserving refactoring (written by
independent sub-agents) in a scratch worktree of /repo and run the checks of every property whose
anchored files it touches.  Expected: PASS.  `no-failing-input-found` = a proof obligation / the
correspondence broke on a harmless rewrite (allowed by the brief, but counted); a VIOLATION with a
concrete replay on a harmless rewrite would be a FALSE ALARM to repair."""
import glob, json, os, re, shutil, subprocess, sys
VERIF = os.path.dirname(os.path.dirname(os.path.abspath(__file__)))
props = [json.loads(l) for l in open(os.path.join(VERIF, "properties.jsonl"))]
anch = {p["id"]: set(p["anchors"]["files"]) for p in props}
extra = {  # files modelled by a property although not in its anchor list
    "core/internal/congestion/bbr/ringbuffer.go": {"C12"}, "extras/obfs/conn.go": {"C13"},
}
out_path = os.path.join(VERIF, "selftest", "refactors.json")
out = json.load(open(out_path)) if os.path.exists(out_path) else {}
srcs = sorted(glob.glob("/tmp/seed/R*/REFACTOR/patch*.diff")) if len(sys.argv) < 2 else sys.argv[1:]
for src in srcs:
    rid = src.split("/")[3] + "-" + re.search(r"patch(\d+)", src).group(1)
    dst = os.path.join(VERIF, "seeded-refactors", rid)
    os.makedirs(dst, exist_ok=True)
    shutil.copy(src, os.path.join(dst, "patch.diff"))
    notes = os.path.join(os.path.dirname(src), "notes.md")
    if os.path.exists(notes):
        shutil.copy(notes, os.path.join(dst, "notes.md"))
    files = set(re.findall(r"^\+\+\+ b/(\S+)", open(src).read(), re.M))
    related = sorted({p for p, fs in anch.items() if fs & files} | set().union(*[extra.get(f, set()) for f in files]))
    d = "/tmp/hyscratch/refactor-" + rid
    subprocess.run("git -C /repo worktree remove --force %s 2>/dev/null; git -C /repo worktree add -q --detach %s HEAD" % (d, d), shell=True)
    res = {}
    try:
        if subprocess.run("git apply %s" % src, shell=True, cwd=d).returncode != 0:
            res = {"error": "patch does not apply"}
        else:
            env = dict(os.environ); env["VERIF_REPO"] = d
            for p in related:
                r = subprocess.run("python3 tools/run.py %s" % p, shell=True, cwd=VERIF, env=env, stdout=subprocess.PIPE, stderr=subprocess.STDOUT, text=True)
                lines = [l for l in r.stdout.splitlines() if l.startswith(("PASS", "VIOLATION", "KNOWN"))]
                v = [l for l in lines if l.startswith("VIOLATION")]
                res[p] = "PASS" if r.returncode == 0 else ("obligation-only" if v and all("no-failing-input-found" in l for l in v) else "CONCRETE-VIOLATION " + " | ".join(v)[:200])
    finally:
        subprocess.run("git -C /repo worktree remove --force %s; git -C /repo worktree prune" % d, shell=True)
    out[rid] = {"files": sorted(files), "results": res}
    print(rid, sorted(files), res, flush=True)
    json.dump(out, open(out_path, "w"), indent=1)
