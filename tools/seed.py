#!/usr/bin/env python3
"""Seeded-change bookkeeping.

  seed.py confirm <PROP> <src SEED dir> <k> --mod extras --pkg ./obfs/ [--run TestSeed] [--tests "./obfs/ ./..."] [--needs "..."]
      Confirm, in a scratch worktree of /repo (outside /repo and /verif), that patch<k>.diff applies, the
      module(s) still build, the existing tests of the given packages still pass with the change, the
      demonstration FAILS with the change and PASSES without it.  On success the seed is stored as
      /verif/seeded/<PROP>-<n>/{patch.diff, demo/, meta.json}.

  seed.py run <seed id> [--tier quick] [--all]
      Apply the stored patch in a fresh scratch worktree of /repo, run the property's check against it with
      VERIF_REPO (or --inplace: `git -C /repo apply`, run, `git -C /repo checkout -- .`), record the outcome
      in seeded/<id>/result.json.  Expectation: exit 1 with a VIOLATION line.
"""
import argparse
import glob
import json
import os
import shutil
import subprocess
import sys
import time

VERIF = os.path.dirname(os.path.dirname(os.path.abspath(__file__)))
SCRATCH = "/tmp/hyscratch"


def sh(cmd, cwd=None, env=None, timeout=3600):
    p = subprocess.run(cmd, shell=True, cwd=cwd, env=env, stdout=subprocess.PIPE, stderr=subprocess.STDOUT, text=True, errors="replace", timeout=timeout)
    return p.returncode, p.stdout


def goenv():
    e = dict(os.environ)
    for k in ("GOTOOLCHAIN", "GOSUMDB"):
        e.pop(k, None)
    e["GOPROXY"] = "off"
    e["GOFLAGS"] = ""
    return e


def scratch(name):
    os.makedirs(SCRATCH, exist_ok=True)
    d = os.path.join(SCRATCH, name)
    if os.path.exists(d):
        sh("git -C /repo worktree remove --force " + d)
        shutil.rmtree(d, ignore_errors=True)
    rc, o = sh("git -C /repo worktree add -q --detach %s HEAD" % d)
    if rc != 0:
        raise SystemExit("cannot create scratch worktree: " + o)
    return d


def drop(d):
    sh("git -C /repo worktree remove --force " + d)
    shutil.rmtree(d, ignore_errors=True)
    sh("git -C /repo worktree prune")


def confirm(a):
    src = a.src
    patch = os.path.join(src, "patch%s.diff" % a.k)
    demo = os.path.join(src, "demo%s" % a.k)
    d = scratch("seedconf-%s-%s" % (a.prop, a.k))
    log = []
    ok = True
    try:
        rc, o = sh("git apply %s" % patch, cwd=d)
        log.append(("git apply", rc, o[-500:]))
        if rc != 0:
            raise RuntimeError("patch does not apply")
        mods = sorted({a.mod} | set((a.buildmods or "").split()))
        for m in mods:
            if not m:
                continue
            rc, o = sh("go build ./... && go vet ./... 2>&1 | tail -5", cwd=os.path.join(d, m), env=goenv())
            log.append(("build " + m, rc, o[-800:]))
            if rc != 0:
                raise RuntimeError("does not build: " + m)
        tests = a.tests or a.pkg
        rc, o = sh("go test -vet=off -count=1 %s 2>&1 | tail -30" % tests, cwd=os.path.join(d, a.mod), env=goenv(), timeout=3000)
        log.append(("existing tests with change: go test " + tests, rc, o[-1500:]))
        if "FAIL" in o and not a.allow_fail:
            raise RuntimeError("existing tests fail with the change")
        pkgdir = os.path.join(d, a.mod, a.pkg.strip("./"))
        for f in glob.glob(os.path.join(demo, "*_test.go")):
            shutil.copy(f, pkgdir)
        run = "go test -vet=off -count=1 -run '%s' %s 2>&1 | tail -25" % (a.run, a.pkg)
        rc, o = sh(run, cwd=os.path.join(d, a.mod), env=goenv(), timeout=1200)
        log.append(("demo WITH change: " + run, rc, o[-1500:]))
        failed_with = ("FAIL" in o)
        rc, o = sh("git apply -R %s" % patch, cwd=d)
        rc, o = sh(run, cwd=os.path.join(d, a.mod), env=goenv(), timeout=1200)
        log.append(("demo WITHOUT change: " + run, rc, o[-1500:]))
        passed_without = ("FAIL" not in o) and ("ok" in o)
        if not failed_with:
            raise RuntimeError("demo does not fail with the change")
        if not passed_without:
            raise RuntimeError("demo does not pass without the change")
    except RuntimeError as e:
        ok = False
        log.append(("ERROR", 1, str(e)))
    finally:
        drop(d)
    for what, rc, o in log:
        print("== %s (rc=%s)\n%s" % (what, rc, o))
    if not ok:
        print("NOT CONFIRMED")
        return 1
    n = 1
    while os.path.exists(os.path.join(VERIF, "seeded", "%s-%d" % (a.prop, n))):
        n += 1
    out = os.path.join(VERIF, "seeded", "%s-%d" % (a.prop, n))
    os.makedirs(os.path.join(out, "demo"))
    shutil.copy(patch, os.path.join(out, "patch.diff"))
    for f in os.listdir(demo):
        shutil.copy(os.path.join(demo, f), os.path.join(out, "demo", f))
    notes = os.path.join(src, "notes%s.md" % a.k)
    if os.path.exists(notes):
        shutil.copy(notes, os.path.join(out, "notes.md"))
    meta = {
        "id": "%s-%d" % (a.prop, n), "property": a.prop,
        "origin": "independent sub-agent given only the property text and a scratch worktree of /repo",
        "needs_to_manifest": a.needs or "see notes.md",
        "module": a.mod, "package": a.pkg, "demo_run": a.run,
        "confirmed": {"at": time.strftime("%Y-%m-%dT%H:%M:%SZ", time.gmtime()),
                      "steps": [{"what": w, "rc": rc, "tail": o[-600:]} for w, rc, o in log]},
    }
    json.dump(meta, open(os.path.join(out, "meta.json"), "w"), indent=1)
    print("CONFIRMED -> " + out)
    return 0


def run(a):
    sd = os.path.join(VERIF, "seeded", a.id)
    meta = json.load(open(os.path.join(sd, "meta.json")))
    props = [meta["property"]] + (a.also.split() if a.also else [])
    results = {}
    if a.inplace:
        rc, o = sh("git -C /repo apply %s" % os.path.join(sd, "patch.diff"))
        if rc != 0:
            raise SystemExit("patch does not apply to /repo: " + o)
        env = dict(os.environ)
        try:
            for p in props:
                t0 = time.time()
                rc, o = sh("python3 tools/run.py %s --tier %s" % (p, a.tier), cwd=VERIF, env=env, timeout=7200)
                results[p] = {"rc": rc, "lines": [l for l in o.splitlines() if l.startswith(("VIOLATION", "PASS", "KNOWN"))], "wall_s": round(time.time() - t0, 1)}
        finally:
            sh("git -C /repo checkout -- .")
    else:
        d = scratch("seedrun-" + a.id)
        try:
            rc, o = sh("git apply %s" % os.path.join(sd, "patch.diff"), cwd=d)
            if rc != 0:
                raise SystemExit("patch does not apply: " + o)
            env = dict(os.environ)
            env["VERIF_REPO"] = d
            for p in props:
                t0 = time.time()
                rc, o = sh("python3 tools/run.py %s --tier %s" % (p, a.tier), cwd=VERIF, env=env, timeout=7200)
                results[p] = {"rc": rc, "lines": [l for l in o.splitlines() if l.startswith(("VIOLATION", "PASS", "KNOWN"))], "wall_s": round(time.time() - t0, 1)}
        finally:
            drop(d)
    # NOTE: a run against a scratch copy rewrites evidence/<prop>.json and Hy/Gen; re-run the check on /repo afterwards.
    res = {"tier": a.tier, "at": time.strftime("%Y-%m-%dT%H:%M:%SZ", time.gmtime()), "results": results,
           "caught": results[meta["property"]]["rc"] == 1,
           "concrete_replay": any("VIOLATION" in l and "no-failing-input-found" not in l for l in results[meta["property"]]["lines"])}
    json.dump(res, open(os.path.join(sd, "result.json"), "w"), indent=1)
    print(json.dumps(res, indent=1))
    return 0


def main():
    ap = argparse.ArgumentParser()
    sub = ap.add_subparsers(dest="cmd", required=True)
    c = sub.add_parser("confirm")
    c.add_argument("prop"); c.add_argument("src"); c.add_argument("k")
    c.add_argument("--mod", required=True); c.add_argument("--pkg", required=True)
    c.add_argument("--run", default="TestSeed"); c.add_argument("--tests", default=None)
    c.add_argument("--buildmods", default=None); c.add_argument("--needs", default=None)
    c.add_argument("--allow-fail", action="store_true")
    r = sub.add_parser("run")
    r.add_argument("id"); r.add_argument("--tier", default="quick"); r.add_argument("--also", default=None)
    r.add_argument("--inplace", action="store_true")
    a = ap.parse_args()
    sys.exit(confirm(a) if a.cmd == "confirm" else run(a))


if __name__ == "__main__":
    main()
