#!/usr/bin/env python3
"""Cross-firing sweep (support tooling): for every stored seeded change, run the checks of the OTHER
properties whose anchored files the patch touches, and record which of them alarm.  A check that
alarms on a tree where ITS OWN property still holds is over-strict; the result file is the list to
inspect by hand (an alarm is legitimate when the change also breaks that property)."""
import glob, json, os, re, subprocess, sys, time
VERIF = os.path.dirname(os.path.dirname(os.path.abspath(__file__)))
props = [json.loads(l) for l in open(os.path.join(VERIF, "properties.jsonl"))]
anch = {p["id"]: set(p["anchors"]["files"]) for p in props}
out = {}
only = set(sys.argv[1:])
for d in sorted(glob.glob(os.path.join(VERIF, "seeded", "*"))):
    m = json.load(open(os.path.join(d, "meta.json")))
    sid = m["id"]
    if only and sid not in only:
        continue
    files = set(re.findall(r"^\+\+\+ b/(\S+)", open(os.path.join(d, "patch.diff")).read(), re.M))
    related = sorted(p for p, fs in anch.items() if fs & files and p != m["property"])
    if not related:
        continue
    cmd = "python3 tools/seed.py run %s --also '%s'" % (sid, " ".join(related))
    # seed.py runs the own property first, then the related ones; result.json is rewritten by it, so keep a copy
    keep = os.path.join(d, "result.json")
    old = open(keep).read() if os.path.exists(keep) else None
    p = subprocess.run(cmd, shell=True, cwd=VERIF, stdout=subprocess.PIPE, stderr=subprocess.STDOUT, text=True)
    try:
        res = json.load(open(keep))["results"]
    except Exception:
        res = {"error": p.stdout[-500:]}
    if old is not None:
        open(keep, "w").write(old)
    out[sid] = {"property": m["property"], "files": sorted(files), "related": {k: {"rc": v.get("rc"), "lines": [l[:160] for l in v.get("lines", [])]} for k, v in res.items() if k in related}}
    print(sid, {k: v["rc"] for k, v in out[sid]["related"].items()}, flush=True)
    json.dump(out, open(os.path.join(VERIF, "selftest", "crossfire.json"), "w"), indent=1)
