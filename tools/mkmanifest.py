#!/usr/bin/env python3
"""Regenerate MANIFEST.json from tools/hv/props/*.py (one module per claimed property)."""
import importlib
import json
import os
import sys

HERE = os.path.dirname(os.path.abspath(__file__))
VERIF = os.path.dirname(HERE)
sys.path.insert(0, HERE)

NOT_YET = {
}

ids = [json.loads(l)["id"] for l in open(os.path.join(VERIF, "properties.jsonl"))]
checks, na = [], []
for pid in ids:
    path = os.path.join(HERE, "hv", "props", pid + ".py")
    if not os.path.exists(path):
        na.append({"property_id": pid, "reason": NOT_YET.get(pid, "no check is registered at this commit: the Lean model, theorems and correspondence harness for this property are designed in DESIGN.md section 6 but not built yet")})
        continue
    m = importlib.import_module("hv.props." + pid)
    cfg = m.CFG
    man = getattr(m, "MANIFEST", {})
    checks.append({
        "property_id": pid,
        "quick_cmd": "python3 tools/run.py %s --tier quick" % pid,
        "thorough_cmd": "python3 tools/run.py %s --tier thorough" % pid,
        "evidence_file": "/verif/evidence/%s.json" % pid,
        "replay_cmd_template": "python3 tools/run.py %s --replay {path}" % pid,
        "engine": "lean4-proof+correspondence",
        "level_claimed": {
            "category": cfg.get("level", "proof"),
            "text": man.get("text", ""),
            "design_ref": "DESIGN.md section 6, " + pid,
        },
        "level_note": man.get("note", "; ".join(cfg.get("trusted_base", []))),
        "technique": man.get("technique", "Lean 4 theorems over an executable model + differential correspondence with the Go code"),
    })

manifest = {
    "version": 1,
    "setup_cmd": "bash tools/setup.sh",
    "hooks": {
        "guard": "verif",
        "enable": "go build/test -tags verif -overlay /verif/.build/overlay.json (harness sources live under /verif/harness and are compiled into /repo's modules by -overlay; /repo carries no hook code; two files are compiled from instrumented copies REGENERATED from the current source on every run — core/internal/congestion/utils.go for C10 and app/internal/proxymux/manager.go for C18 — whose diff against the original is checked to consist of the inserted hook calls only and is written to evidence/C10-hooks.diff / C18-hooks.diff)",
        "baseline_off_cmd": "for m in core extras app; do (cd /repo/$m && go test -vet=off -count=1 -timeout 25m ./...); done",
        "source_commits": [],
        "add_only": True,
    },
    "engines": [
        {"name": "lean4-proof+correspondence", "path": "/verif/lean + /verif/harness + /verif/tools",
         "serves_properties": [c["property_id"] for c in checks],
         "kind_free_text": "Lean 4 (core + single Mathlib modules in proofs) theorems over executable models; models tied to /repo on every run by constants regenerated from the compiled packages and by a line-protocol differential (Go harness overlaid into the modules vs. the native Lean driver hydrv); axioms audited with #print axioms, modules re-checked with leanchecker"},
    ],
    "checks": checks,
    "not_applicable": na,
    "notes": "See DESIGN.md. A check exits 1 with a VIOLATION line when a proof obligation, the correspondence, or a model-free oracle on the implementation fails; known genuine defects are listed in known_findings.json.",
}
with open(os.path.join(VERIF, "MANIFEST.json"), "w") as f:
    json.dump(manifest, f, indent=1)
print("checks:", [c["property_id"] for c in checks], "n/a:", len(na))
