#!/bin/bash
# integrate.sh: finish a `git merge w/<x>` whose only conflicts are Main.lean (union) and the
# well-known duplicate makedirs edit in common.py (ours).
cd /verif
for f in $(git diff --name-only --diff-filter=U); do
  case "$f" in
    lean/Main.lean) python3 tools/resolve_union.py "$f" ;;
    tools/hv/common.py) git checkout --ours "$f" ;;
    evidence/*) git checkout --ours "$f" ;;
    *) echo "UNRESOLVED: $f"; exit 1 ;;
  esac
done
git add -A
