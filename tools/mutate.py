#!/usr/bin/env python3
"""Mechanical mutation self-test of one property's check (support tooling, not a check).

  mutate.py <PROP> --mod core --files core/internal/frag/frag.go[,more] --tests "./internal/frag/ ./internal/protocol/"
            [--max 40] [--seed 1] [--out selftest/<PROP>/mutants.json]

For each mutant (one small operator/constant change in an anchored file):
  1. apply it in a scratch worktree of /repo (outside /repo and /verif);
  2. `go build ./...` in the module — a mutant that does not compile is discarded;
  3. run the module's existing tests for the listed packages — a mutant the EXISTING suite kills is
     uninteresting (the property's point is what the tests cannot see) and is recorded as such;
  4. run `python3 tools/run.py PROP` with VERIF_REPO=<scratch> and record PASS / VIOLATION (+ whether
     a concrete replay was found).
A surviving mutant (existing tests pass, check passes) is either an equivalent mutant or a hole in the
check; the list is written to the output file for inspection.  The scratch worktree is removed at the end.
"""
import argparse
import json
import os
import random
import re
import shutil
import subprocess
import sys
import time

VERIF = os.path.dirname(os.path.dirname(os.path.abspath(__file__)))
SCRATCH = "/tmp/hyscratch"

RULES = [
    (r"(?<![<>=!:+\-*/&|])<=(?!=)", "<"), (r"(?<![<>=!:\-])<(?![<=\-])", "<="),
    (r"(?<![<>=!\-])>=(?!=)", ">"), (r"(?<![<>=!\-])>(?![>=])", ">="),
    (r"==", "!="), (r"!=", "=="),
    (r"&&", "||"), (r"\|\|", "&&"),
    (r"\+ 1\b", "+ 0"), (r"- 1\b", "- 0"), (r"\+ 1\b", "+ 2"),
    (r"\b0x40\b", "0x80"), (r"\b255\b", "256"), (r"\b8\b", "7"), (r"\b32\b", "31"),
    (r"\+=", "="), (r"-=", "+="), (r"\+\+", "--"),
    (r"\bbreak\b", "continue"), (r"\bcontinue\b", "break"),
    (r"\btrue\b", "false"), (r"\bfalse\b", "true"),
]


def sh(cmd, cwd=None, env=None, timeout=3600):
    try:
        p = subprocess.run(cmd, shell=True, cwd=cwd, env=env, stdout=subprocess.PIPE, stderr=subprocess.STDOUT, text=True, errors="replace", timeout=timeout)
        return p.returncode, p.stdout
    except subprocess.TimeoutExpired as e:
        return 124, "TIMEOUT " + (e.stdout or "")[-500:] if isinstance(e.stdout, str) else "TIMEOUT"


def goenv():
    e = dict(os.environ)
    for k in ("GOTOOLCHAIN", "GOSUMDB"):
        e.pop(k, None)
    e["GOPROXY"] = "off"
    e["GOFLAGS"] = ""
    return e


def candidates(src, only_funcs=None):
    """(line number, column span, replacement) for every rule match outside comments/strings/imports."""
    out = []
    in_block = False
    lines = src.split("\n")
    for i, ln in enumerate(lines):
        s = ln.strip()
        if in_block:
            if "*/" in ln:
                in_block = False
            continue
        if s.startswith("/*"):
            in_block = "*/" not in ln
            continue
        if s.startswith("//") or s.startswith("import") or s.startswith("package") or s.startswith('"'):
            continue
        code = ln.split("//")[0]
        # blank out string literals
        code_masked = re.sub(r'"(\\.|[^"\\])*"', lambda m: " " * len(m.group(0)), code)
        code_masked = re.sub(r"`[^`]*`", lambda m: " " * len(m.group(0)), code_masked)
        for pat, rep in RULES:
            for m in re.finditer(pat, code_masked):
                out.append((i, m.start(), m.end(), rep))
    return out


def main():
    ap = argparse.ArgumentParser()
    ap.add_argument("prop")
    ap.add_argument("--mod", required=True)
    ap.add_argument("--files", required=True)
    ap.add_argument("--tests", required=True)
    ap.add_argument("--max", type=int, default=40)
    ap.add_argument("--seed", type=int, default=1)
    ap.add_argument("--lines", default=None, help="restrict to line ranges, e.g. 10-80,120-140 (applies to the first file)")
    ap.add_argument("--out", default=None)
    a = ap.parse_args()
    files = a.files.split(",")
    rng = random.Random(a.seed)
    d = os.path.join(SCRATCH, "mut-%s-%d" % (a.prop, os.getpid()))
    os.makedirs(SCRATCH, exist_ok=True)
    sh("git -C /repo worktree remove --force " + d)
    rc, o = sh("git -C /repo worktree add -q --detach %s HEAD" % d)
    if rc != 0:
        raise SystemExit(o)
    results = []
    try:
        muts = []
        for f in files:
            src = open(os.path.join(d, f)).read()
            cs = candidates(src)
            if a.lines and f == files[0]:
                rs = [tuple(int(x) for x in r.split("-")) for r in a.lines.split(",")]
                cs = [c for c in cs if any(lo <= c[0] + 1 <= hi for lo, hi in rs)]
            muts += [(f,) + c for c in cs]
        rng.shuffle(muts)
        muts = muts[:a.max]
        print("%d mutants selected" % len(muts), flush=True)
        for k, (f, i, s, e, rep) in enumerate(muts):
            path = os.path.join(d, f)
            orig = open(path).read()
            lines = orig.split("\n")
            old_line = lines[i]
            lines[i] = old_line[:s] + rep + old_line[e:]
            open(path, "w").write("\n".join(lines))
            rec = {"file": f, "line": i + 1, "from": old_line.strip(), "to": lines[i].strip()}
            t0 = time.time()
            rc, o = sh("go build ./... 2>&1 | tail -3", cwd=os.path.join(d, a.mod), env=goenv(), timeout=600)
            if rc != 0 or "error" in o or o.strip():
                rec["status"] = "does-not-compile"
            else:
                rc, o = sh("go test -vet=off -count=1 -timeout 300s %s 2>&1 | tail -5" % a.tests, cwd=os.path.join(d, a.mod), env=goenv(), timeout=900)
                if "FAIL" in o or "panic" in o or rc == 124:
                    rec["status"] = "killed-by-existing-tests"
                else:
                    env = dict(os.environ)
                    env["VERIF_REPO"] = d
                    rc, o = sh("python3 tools/run.py %s --tier quick" % a.prop, cwd=VERIF, env=env, timeout=1800)
                    vl = [l for l in o.splitlines() if l.startswith(("VIOLATION", "PASS", "KNOWN"))]
                    if rc == 1:
                        rec["status"] = "caught"
                        rec["concrete_replay"] = any("no-failing-input-found" not in l for l in vl if l.startswith("VIOLATION"))
                    elif rc == 0:
                        rec["status"] = "SURVIVED"
                    else:
                        rec["status"] = "check-error rc=%d" % rc
                    rec["check_lines"] = vl
            rec["wall_s"] = round(time.time() - t0, 1)
            open(path, "w").write(orig)
            results.append(rec)
            print("[%d/%d] %s:%d  %s  ->  %s   %s" % (k + 1, len(muts), f, i + 1, rec["from"][:70], rec["to"][:70], rec["status"]), flush=True)
    finally:
        sh("git -C /repo worktree remove --force " + d)
        shutil.rmtree(d, ignore_errors=True)
        sh("git -C /repo worktree prune")
    summ = {}
    for r in results:
        summ[r["status"]] = summ.get(r["status"], 0) + 1
    out = a.out or os.path.join(VERIF, "selftest", a.prop, "mutants.json")
    os.makedirs(os.path.dirname(out), exist_ok=True)
    json.dump({"property": a.prop, "files": files, "seed": a.seed, "summary": summ, "mutants": results}, open(out, "w"), indent=1)
    print(json.dumps(summ))


if __name__ == "__main__":
    main()
