#!/usr/bin/env python3
"""Resolve git conflict markers in a file by keeping BOTH sides (ours first, then theirs)."""
import sys
for p in sys.argv[1:]:
    out = []
    for ln in open(p).read().split("\n"):
        if ln.startswith("<<<<<<< ") or ln.startswith(">>>>>>> ") or ln == "=======" or ln.startswith("||||||| "):
            continue
        out.append(ln)
    open(p, "w").write("\n".join(out))
