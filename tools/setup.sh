#!/bin/bash
# Run once in /verif after a fresh restore, offline: build the Lean project (models, proofs,
# property theorems, hydrv driver) and warm the Go build cache with the overlay harnesses.
set -u
cd "$(dirname "$0")/.."
( cd lean && lake build ) || { echo "setup: lake build failed"; exit 1; }
python3 tools/warm.py || { echo "setup: harness build failed"; exit 1; }
echo "setup: ok"
