#!/bin/bash
# Run once in /verif after a fresh restore, offline: build the overlay harnesses from /repo
# (warms the Go build cache, regenerates lean/Hy/Gen), then the Lean project: driver first,
# then every property module on its own (a proof that no longer checks must show up in that
# property's check, not abort setup).
set -u
cd "$(dirname "$0")/.."
python3 tools/warm.py || echo "setup: a harness build failed (the affected checks will report it)"
( cd lean && lake build hydrv ) || { echo "setup: lake build hydrv failed"; exit 1; }
for f in lean/Hy/Props/*.lean; do
  m="Hy.Props.$(basename "$f" .lean)"
  ( cd lean && lake build "$m" ) >/dev/null 2>&1 || echo "setup: $m does not build (its check will report it)"
done
echo "setup: ok"
