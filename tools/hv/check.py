"""The generic check: Gen → lake build + audit + leanchecker → harness build from /repo's
working tree → corpus + generated correspondence streams → property oracles → decision →
evidence.  Per-property configuration is in props.py."""
import json
import os
import re
import sys
import time

from . import common as C


def _stream_dir(prop, s, tag):
    return os.path.join(C.BUILD, "runs", prop, "%s-%s" % (s["component"], tag))


def _run_one_stream(prop, s, binaries, seed, n, tag, ops_file=None, race=False):
    outdir = _stream_dir(prop, s, tag)
    if s.get("kind", "bin") == "bin":
        b = binaries.get((s["mod"], race)) or binaries.get((s["mod"], False))
        # optional per-stream environment ("{outdir}" = this run's directory), e.g. GORACE log_path
        env_extra = {k: v.replace("{outdir}", outdir) for k, v in s.get("env", {}).items()} or None
        return C.run_stream(b, s["component"], s["driver"], seed, n, outdir, ops_file=ops_file,
                            timeout=s.get("timeout", 3600), env_extra=env_extra)
    # go test harness: the test writes the same files through verifhlib.Emitter
    import shutil
    shutil.rmtree(outdir, ignore_errors=True)
    os.makedirs(outdir)
    env = {"VERIF_OUT": outdir, "VERIF_SEED": str(seed), "VERIF_N": str(n), "VERIF_COMPONENT": s["component"]}
    if ops_file:
        env["VERIF_OPS"] = ops_file
    t0 = time.time()
    rc, o = C.go_test(s["mod"], s["pkg"], s["run"], race=race, env_extra=env, timeout=s.get("timeout", 1800))
    if rc != 0 or not os.path.exists(os.path.join(outdir, "ops.txt")):
        return {"component": s["component"], "error": "go test harness failed (rc=%d)" % rc, "harness_out": o[-6000:],
                "mismatches": [], "oracle": [], "cases": 0, "dir": outdir}
    # reuse the comparison half of run_stream by running the driver on the files produced
    res = C.compare_dir(s["component"], s["driver"], outdir)
    res["harness_s"] = round(time.time() - t0, 2)
    res["harness_out"] = o[-2000:]
    return res


def _replay_ops(prop, s, replay):
    """A replay is either a plain ops file (used as is for every stream) or a replays/*.json written
    by a failed run: then the op histories of its failing entries for this stream's component are
    written to an ops file (None if there are none)."""
    if not replay.endswith(".json"):
        return replay
    try:
        data = json.load(open(replay))
    except Exception:  # noqa
        return replay
    ops = []
    for f in data.get("failing", []):
        if f.get("component") != s["component"]:
            continue
        ops += f.get("ops") or [f.get("op", "")]
    if not ops:
        return None
    path = os.path.join(C.BUILD, "runs", prop, "replay-%s.ops" % s["component"])
    os.makedirs(os.path.dirname(path), exist_ok=True)
    with open(path, "w") as fh:
        fh.write("\n".join(o for o in ops if o) + "\n")
    return path


def check(prop, cfg, tier, seed, replay=None):
    t0 = time.time()
    tie_broken = []      # what no longer checks (proof obligation / correspondence)
    failures = []        # property failures observed on the implementation (model-free oracle)
    notes = []
    lean_report = {}
    streams_out = []
    known = C.load_known()

    # ---- 0. per-property steps that must precede the harness build (e.g. generating an
    #         instrumented copy of a /repo file that the overlay will compile instead of it)
    for hook in cfg.get("pre_build_hooks", []):
        try:
            hook()
        except Exception as e:  # noqa
            tie_broken.append({"what": "pre-build step failed: %s" % hook.__name__, "detail": repr(e)})

    # ---- 1. harness builds from the current working tree (also provides `consts`)
    binaries = {}
    mods = sorted({s["mod"] for s in cfg.get("streams", []) if s.get("kind", "bin") == "bin"} | set(cfg.get("gen_modules", [])))
    for m in mods:
        b, o = C.build_harness(m)
        if b is None:
            tie_broken.append({"what": "harness build failed for module %s (the overlay shims no longer compile against /repo)" % m,
                               "detail": o[-3000:]})
        else:
            binaries[(m, False)] = b
    if tier == "thorough" and cfg.get("race"):
        for m in mods:
            if (m, False) in binaries:
                b, o = C.build_harness(m, race=True)
                if b:
                    binaries[(m, True)] = b

    # ---- 2. regenerated facts + Lean build + audit + independent re-check
    with C.Lock("lean"):
        for m in cfg.get("gen_modules", []):
            if (m, False) in binaries:
                ok, o = C.regen_consts(m, binaries[(m, False)])
                if not ok:
                    tie_broken.append({"what": "constant extraction failed for module " + m, "detail": o[-2000:]})
        for hook in cfg.get("gen_hooks", []):
            try:
                hook()
            except Exception as e:  # noqa
                tie_broken.append({"what": "fact extraction failed: %s" % hook.__name__, "detail": repr(e)})
        pmods = [cfg["props_module"]] + list(cfg.get("extra_props_modules", []))
        ok, o = C.lake_build(pmods + ["hydrv"])
        lean_report["build_ok"] = ok
        if not ok:
            errs = [ln for ln in o.splitlines() if "error" in ln][:8]
            tie_broken.append({"what": "lake build %s failed: a proof obligation no longer checks against the regenerated facts" % cfg["props_module"],
                               "detail": "\n".join(errs) or o[-3000:]})
        else:
            lean_report.update({"theorems": [], "axioms_used": [], "problems": [], "modules": []})
            for pm in pmods:
                aok, rep = C.audit(pm)
                for k in ("theorems", "problems", "modules"):
                    lean_report[k] = lean_report[k] + [x for x in rep[k] if x not in lean_report[k]]
                lean_report["axioms_used"] = sorted(set(lean_report["axioms_used"]) | set(rep["axioms_used"]))
                if not aok:
                    tie_broken.append({"what": "axiom/forbidden-token audit failed for " + pm, "detail": "; ".join(rep["problems"])[:3000]})
            to_check = pmods if tier == "quick" else sorted(set().union(*[C.transitive_imports(pm) for pm in pmods]))
            cok, co = C.leanchecker(to_check)
            lean_report["leanchecker_ok"] = cok
            lean_report["leanchecker_modules"] = to_check
            if not cok:
                tie_broken.append({"what": "leanchecker rejected " + cfg["props_module"], "detail": co[-3000:]})

    # ---- 3. correspondence: corpus first, then generated
    total_cases = 0
    for s in cfg.get("streams", []):
        if s.get("kind", "bin") == "bin" and (s["mod"], False) not in binaries:
            continue
        if s.get("seed_add") and (replay or s["n"].get(tier, 0) == 0):
            continue  # additional seed chunk of a stream: not part of this tier / not needed for a replay
        runs = []
        if replay:
            rp = _replay_ops(prop, s, replay)
            if rp is None:
                continue  # the replay file holds nothing for this stream
            runs.append(("replay", rp, 0))
        else:
            corp = os.path.join(C.VERIF, "corpus", cfg.get("corpus_from", {}).get(s["component"], prop), s["component"] + ".ops")
            if os.path.exists(corp):
                runs.append(("corpus", corp, 0))
            runs.append(("gen", None, s["n"][tier]))
        for tag, ops_file, n in runs:
            r = _run_one_stream(prop, s, binaries, seed + s.get("seed_add", 0), n, tag, ops_file=ops_file,
                                race=(tier == "thorough" and cfg.get("race", False)))
            r["tag"] = tag
            streams_out.append(r)
            total_cases += r.get("cases", 0)
            if r.get("error"):
                tie_broken.append({"what": "correspondence stream %s/%s did not complete: %s" % (s["component"], tag, r["error"]),
                                   "detail": r.get("harness_out", "")[-3000:]})
            if s.get("compare") == "panic-only":
                # a stream borrowed from another property: for THIS property only a disagreement about
                # panicking counts (the rest of the comparison belongs to the owning property's check)
                r["mismatches"] = [mm for mm in r["mismatches"]
                                   if ("panic" in mm["impl"].lower()) != ("panic" in mm["model"].lower())]
            for mm in r["mismatches"][:5]:
                tie_broken.append({"what": "model and implementation disagree (stream %s, line %d)" % (s["component"], mm["line"]),
                                   "component": s["component"], "op": mm["op"], "model_op": mm["model_op"],
                                   "impl": mm["impl"][:2000], "model": mm["model"][:2000]})
            for f in r["oracle"]:
                if cfg.get("oracle_filter_re") and not re.search(cfg["oracle_filter_re"], f["what"]):
                    continue   # an oracle clause that belongs to another property's scope
                ops = [f["op"]]
                if s.get("reset_re"):
                    ops = C.prefix_ops(os.path.join(r["dir"], "ops.txt"), f["line"], s["reset_re"])
                failures.append({"component": s["component"], "op": f["op"], "ops": ops, "impl": f["impl"][:2000], "what": f["what"]})

    # ---- 4. extra property-specific checks (return lists of tie_broken / failures entries)
    for extra in cfg.get("extra_checks", []):
        try:
            tb, fl, info = extra(tier, seed, binaries)
            tie_broken += tb
            failures += fl
            if info:
                notes.append(info)
        except Exception as e:  # noqa
            tie_broken.append({"what": "extra check %s crashed" % extra.__name__, "detail": repr(e)})

    # ---- 5. decision
    lines = []
    unknown = []
    seen_known = {}
    for f in failures:
        e = C.match_known(prop, f, known)
        if e:
            seen_known.setdefault(e["id"], e)
        else:
            unknown.append(f)
    for e in seen_known.values():
        lines.append("KNOWN-FINDING: property=%s %s" % (prop, e["what"]))
    violation = False
    if unknown:
        violation = True
        path = C.write_replay(prop, "fail", {"property": prop, "seed": seed, "tier": tier,
                                             "failing": unknown[:20], "also_broken": tie_broken[:5],
                                             "how_to_replay": "python3 tools/run.py %s --replay <this file>" % prop})
        lines.append("VIOLATION property=%s replay=%s" % (prop, path))
    elif tie_broken:
        violation = True
        # search the implementation for a concrete failing input with the model-free oracle
        found = None
        if not replay:
            found = search(prop, cfg, binaries, seed, known, budget_s=(90 if tier == "quick" else 600))
        if found:
            path = C.write_replay(prop, "fail", {"property": prop, "seed": seed, "tier": tier, "failing": [found],
                                                 "no_longer_checks": tie_broken[:10]})
            lines.append("VIOLATION property=%s replay=%s" % (prop, path))
        else:
            path = C.write_replay(prop, "tie", {"property": prop, "seed": seed, "tier": tier,
                                                "no_longer_checks": tie_broken[:20],
                                                "note": "no concrete failing input was found on the implementation; "
                                                        "the property is no longer shown to hold"})
            lines.append("VIOLATION property=%s replay=%s no-failing-input-found" % (prop, path))

    # ---- 6. evidence
    thms = lean_report.get("theorems", [])
    discharged = len(thms) if (lean_report.get("build_ok") and not lean_report.get("problems") and lean_report.get("leanchecker_ok")) else 0
    tags = {}
    samples = []
    distinct_nt = 0
    for r in streams_out:
        st = r.get("stats", {})
        for k, v in st.get("tags", {}).items():
            tags["%s:%s" % (r["component"], k)] = tags.get("%s:%s" % (r["component"], k), 0) + v
        samples += st.get("samples", [])[:3]
        distinct_nt += st.get("distinct_nontrivial", 0)
    if len(tags) > 400:   # keep the evidence file small: most frequent tags only
        keep = sorted(tags.items(), key=lambda kv: -kv[1])[:400]
        tags = dict(keep)
        tags["(other tags omitted)"] = 1
    samples = [s if len(str(s)) <= 600 else str(s)[:600] + "…" for s in samples]
    if not samples:
        samples = thms[:5] or ["(no correspondence stream ran)"]
    ev = {
        "property_id": prop,
        "tier": tier,
        "seed": seed,
        "level": cfg.get("level", "proof"),
        "coverage": {
            "obligations": max(len(thms), 1),
            "discharged": discharged,
            "checker_cmd": "cd lean && lake build %s && lake env leanchecker %s  (+ `#print axioms` on every theorem of these modules)" % (" ".join([cfg["props_module"]] + list(cfg.get("extra_props_modules", []))), " ".join([cfg["props_module"]] + list(cfg.get("extra_props_modules", [])))),
            "trusted_base": cfg.get("trusted_base", []) + [
                "Lean 4.33.0 kernel (re-checked with leanchecker); axioms used: %s" % (", ".join(lean_report.get("axioms_used", [])) or "none"),
                "the Go correspondence harness (harness/, compiled into /repo with -overlay) and tools/hv",
            ],
            "theorems": thms,
            "evaluations": max(total_cases, 1),
            "distinct_nontrivial": distinct_nt,
            "rule": cfg.get("rule", ""),
            "samples": samples[:8],
            "input_distribution": tags,
            "streams": [{k: r.get(k) for k in ("component", "tag", "cases", "harness_s", "driver_s", "error")} |
                        {"mismatches": len(r["mismatches"]), "oracle_failures": len(r["oracle"])} for r in streams_out],
            "correspondence_mismatches": sum(len(r["mismatches"]) for r in streams_out),
            "known_findings_seen": sorted(seen_known),
            "notes": notes,
            "exhaustive": False,
        },
        "assumptions": cfg.get("assumptions", []),
        "wall_s": round(time.time() - t0, 2),
        "violations": (1 if violation else 0),
    }
    C.write_evidence(prop, ev, scratch=bool(replay))   # a --replay run does not describe the check's coverage
    for ln in lines:
        print(ln, flush=True)
    if not violation:
        print("PASS property=%s tier=%s theorems=%d cases=%d wall=%.1fs" % (prop, tier, len(thms), total_cases, time.time() - t0), flush=True)
    return 1 if violation else 0


def search(prop, cfg, binaries, seed, known, budget_s):
    """Look for a concrete input on the IMPLEMENTATION on which the property fails, using
    only the harness's model-free oracles (the model may be what is broken)."""
    t0 = time.time()
    k = 0
    while time.time() - t0 < budget_s and k < 6:
        k += 1
        for s in cfg.get("streams", []):
            if s.get("kind", "bin") == "bin" and (s["mod"], False) not in binaries:
                continue
            n = s["n"]["quick"] * 2
            if n == 0:
                continue
            try:
                r = _run_one_stream(prop, s, binaries, seed * 1000003 + k, n, "search%d" % k)
            except Exception:  # noqa
                continue
            for f in r.get("oracle", []):
                if cfg.get("oracle_filter_re") and not re.search(cfg["oracle_filter_re"], f["what"]):
                    continue
                ff = {"component": s["component"], "op": f["op"], "impl": f["impl"][:2000], "what": f["what"]}
                if s.get("reset_re"):
                    ff["ops"] = C.prefix_ops(os.path.join(r["dir"], "ops.txt"), f["line"], s["reset_re"])
                if not C.match_known(prop, ff, known):
                    return ff
            if time.time() - t0 > budget_s:
                break
    return None
