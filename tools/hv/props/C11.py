from .. import common as C


def gen_trans_pacer():
    # Lean definitions of the Pacer's arithmetic TRANSLATED from the current source of pacer.go
    # (Hy/Gen/TransPacer.lean); Props/C11.lean proves each equal to the hand-written Hy.Pacer function
    # for ALL int64 inputs (maxBurstSize_/budget_/sentPacket_/timeUntilSend_/setMaxDatagramSize_translation_eq).
    # congestion.ByteCount / monotime.Time are int64 in the quic-go fork; MinPacingDelay is a parameter that the
    # theorems instantiate with the value read from the compiled package (Gen.MinPacingDelayNs).
    P = "core/internal/congestion/common/pacer.go:Pacer."
    C.gen_translate("Pacer", [P + "maxBurstSize", P + "Budget", P + "SentPacket", P + "TimeUntilSend", P + "SetMaxDatagramSize"],
                    types={"congestion.ByteCount": "int64", "monotime.Time": "int64"},
                    consts={"congestion.MinPacingDelay": "time.Duration"})


CFG = {
    "props_module": "Hy.Props.C11",
    "gen_modules": ["core"],
    "gen_hooks": [gen_trans_pacer],
    "level": "proof",
    "streams": [
        {"mod": "core", "component": "brutal", "driver": "brutal", "reset_re": "^reset",
         "n": {"quick": 150000, "thorough": 3000000}},
    ],
    "rule": "histories of a REAL BrutalSender + Pacer on a virtual clock (every time is an argument): rate log-uniform in "
            "[65536, 4e10] B/s plus fixed points (65536, 65537, 1e6 .. 4e10), datagram sizes 1200..1500 raised by path-MTU steps "
            "(also 9000/10240), RTT 0 .. 60 s, a QUIC-like send loop (send while HasPacingBudget, otherwise sleep until TimeUntilSend, "
            "sometimes a little longer; bursts up to 40), packets that bypass the pacer while it is limiting (usend: ACK-only 30..80 bytes, "
            "probes up to one datagram, path-MTU probes above it) followed at once by HasPacingBudget queries / paced sends, ack/loss batches around the 50-sample threshold and the 0.8 clamp, idle gaps "
            "up to the largest gap with rate x gap < 2^63, slot expiry after 3..7 s; 1 history in 5 is 'wild' (ungated sends, time running "
            "backwards, gaps beyond the 63-bit range, rates below the floor) and serves the differential only. After EVERY op the pacer "
            "fields, getBandwidth, maxBurstSize, Budget(now), HasPacingBudget(now), TimeUntilSend, CanSend(inflight), "
            "GetCongestionWindow, Float64bits(ackRate) and the five slots are compared with the model. distinct = distinct op line; "
            "non-trivial = a send or a congestion event",
    "trusted_base": [
        "float64 step: Go computes getBandwidth = int64(float64(bps)/ackRate) and the window product in IEEE-754 binary64; the theorems "
        "hold for every bandwidth in (0, B] / every window product, and for the exact rational floor(bps/ackRate) in [bps, floor(5bps/4)] "
        "(bandwidth_bounds); that the IEEE value also lies in that interval is trusted (monotone rounding) and checked on every sampled "
        "state (oracle O3, driver flag fq: ackRate within 1/2 ulp of the rational, bandwidth and window within 1 of the rational floor)",
        "the driver recomputes the two float expressions with Lean `Float` (same IEEE operations, same order) only to reproduce the "
        "integers; ackRate is compared as a bit pattern",
        "every packet quic-go reports to OnPacketSent is either released by HasPacingBudget and at most one datagram (paced) or counted "
        "as unpaced (any size; not part of the bytes the bound is about); quic-go never passes a time earlier than the previous one, and monotime values are positive (monotime.Now() is the "
        "time since one hour before process start); BrutalSender is used from one goroutine (quic-go's connection run loop)",
        "the models Hy.Model.Pacer / Hy.Model.Brutal are tied to pacer.go / brutal.go by the differential stream `brutal` and by constants "
        "regenerated from the compiled packages (incl. the literal pre-RTT window, read off the compiled GetCongestionWindow)",
    ],
    "assumptions": [
        "range: 0 < bandwidth <= 2^40 B/s, datagram size <= 2^32, times < 2^62 ns, bandwidth x gap-since-last-send < 2^63 "
        "(explicit hypotheses Ok / BwOk / GapOk of the theorems; outside it the model wraps like the code and is still compared)",
        "ack/loss counters are below 2^64 (modelled as unbounded naturals)",
        "cwnd_ge_datagram: datagram size <= 10240 (the pre-RTT window is the literal 10240)",
    ],
}

MANIFEST = {
    "text": "Proof: Lean theorems over an executable model of pacer.go (with Go's int64/uint64 wrap-around and truncated division) and "
            "brutal.go (five one-second slots, ackRate as an exact rational). pacer_conformance_with_ungated/brutal_conformance: for every "
            "sequence of paced sends (covered by the budget), UNPACED sends of any size at any time (ACK-only, PTO/MTU probes) and datagram-size "
            "changes from any in-range state, every bandwidth <= B, every cut pre++mid++post with the paced sends of mid inside [t1,t2]: "
            "paced bytes(mid) <= "
            "max(B*4ms, 10*M) + B*(t2-t1)/1e9, with B = floor(5*bps/4) for Brutal. wakeup_sufficient/wakeup_immediate/wakeup_uniform: the "
            "time TimeUntilSend announces (ceil division) yields budget >= one datagram at that and every later instant, also when the "
            "bandwidth changes in between. ackrate_range/ackrate_value/ackrate_disabled: 4/5 <= ackRate <= 1 always; after a congestion "
            "event it equals max(4/5, A/(A+L)) over the events of seconds (t-5s, t] when A+L >= 50, else 1, for every history with "
            "non-decreasing time (slot-rotation invariant). cwnd_ge_datagram, can_always_eventually_send. Range hypotheses (rate x gap < "
            "2^63 etc.) are explicit. Tied to the source by regenerated constants and a 150k-op (quick) differential on every observable "
            "after every op, with seven model-free oracles on the real code (window bound over all send pairs, budget at the announced "
            "wake-up time, window >= datagram, ackRate recomputed from the harness's own event log, bandwidth within [bps, 5bps/4]).",
    "note": "Trusted: Lean kernel (+leanchecker), axioms propext/Quot.sound/Classical.choice at most; the Go harness and hydrv driver; "
            "IEEE rounding of bps/ackRate stays within [bps, floor(5bps/4)] (sampled); quic-go gates sends on HasPacingBudget and passes "
            "non-decreasing positive times. Residual risk = implementation differs from the model on a history the generator did not draw.",
    "technique": "Lean 4 proof (token-bucket conservation by induction over send sequences, slot invariant over event histories, "
                 "int64 wrap eliminated under explicit range hypotheses) with differential correspondence on a virtual clock",
}
