import os

from .. import common as C


def contract_check(tier, seed, binaries):
    """Oracle-only run on the REAL ACL engine + PluggableOutboundAdapter (module extras): the Outbound
    contract the theorems assume (UDP(a) ok => CheckUDP(a) ok; UDP("") fails) on sampled addresses."""
    b = binaries.get(("extras", False))
    if not b:
        return [{"what": "extras harness not built: the Outbound contract was not sampled"}], [], None
    n = 4000 if tier == "quick" else 200000
    out = os.path.join(C.BUILD, "runs", "C08", "udpcontract-gen")
    rc, o = C.run([b, "udpcontract", "-seed", str(seed), "-n", str(n), "-out", out], timeout=900)
    if rc != 0:
        return [{"what": "udpcontract run failed", "detail": o[-2000:]}], [], None
    ops = open(os.path.join(out, "ops.txt")).read().split("\n")
    impl = open(os.path.join(out, "impl.txt")).read().split("\n")
    fails = []
    for ln in open(os.path.join(out, "oracle.txt")):
        k, _, msg = ln.rstrip("\n").partition("\t")
        if not k:
            continue
        k = int(k)
        fails.append({"component": "udpcontract", "op": ops[k - 1], "ops": [ops[k - 1]], "impl": impl[k - 1], "what": msg})
    both = sum(1 for x in impl if x == "udp=true chk=true")
    neither = sum(1 for x in impl if x == "udp=false chk=false")
    return [], fails, "udpcontract: %d addresses on 8 rule sets through the real aclEngine+adapter: %d allowed by both, %d refused by both, %d contract failures" % (
        n, both, neither, len(fails))


_GOTEST = {"kind": "gotest", "mod": "core", "pkg": "./server", "run": "^TestVerifC07$", "reset_re": "^reset", "timeout": 900}

CFG = {
    "props_module": "Hy.Props.C08",
    "gen_modules": ["core", "extras"],
    "level": "proof",
    "race": True,
    "extra_checks": [contract_check],
    "streams": [
        dict(_GOTEST, component="udpacl", driver="udpacl", n={"quick": 9000, "thorough": 200000}),
    ],
    "rule": "histories of one UDP session on the REAL udpSessionManager (in-package harness, synctest bubble): the policy is a PRNG-chosen "
            "deny-set over 700 destinations (density 0, 1/5, 1/2, 9/10); destination sequences of 250..380 distinct addresses (cache "
            "capacity 256) followed by revisits of evicted / early / random keys, few-destination histories with many repeats, short random "
            "ones, every destination sometimes repeated back to back, hook rewriting with original / rewritten address each allowed or denied; first dial with hook off / error / rewrite to an allowed, a denied, or the empty address, dial errors; replies. The "
            "evicted key of every eviction is read from the real map and handed to the model, so cache contents are compared exactly "
            "after every datagram. Only the clauses of THIS property are evaluated here (policy / override / cache oracles and the "
            "udpacl comparison); the session lifecycle is C07's and is not compared. "
            "distinct = distinct op line; non-trivial = the op made the code call its environment (dial / CheckUDP / WriteTo / SendMessage)",
    "trusted_base": [
        "Outbound contract: UDP(a) succeeds only for a destination CheckUDP(a) allows, and fails for the empty address "
        "(extras/outbounds: aclEngine.UDP and .CheckUDP both go through handle(); PluggableOutboundAdapter rejects \"\" in net.SplitHostPort). "
        "The fake outbound of the harness obeys it by construction; the theorem no_empty_guard_counterexample shows what breaks without it",
        "only the receive loop calls entry.Feed, so aclCache / OverrideAddr / OriginalAddr need no lock (modelled as sequential)",
        "the model Hy.Model.UdpAcl is tied to core/server/udp.go by the streams `udpacl` (events, override/original, full cache content "
        "after every op), by the statements the model is written from (udpAclSkel_* regenerated from udp.go) and by maxSessionACLCache regenerated from the compiled package",
    ],
    "assumptions": [
        "the policy is a fixed predicate on the destination string for the lifetime of the session",
        "the eviction victim (Go map iteration order) is an input of the model; the theorems hold for every choice",
    ],
}

MANIFEST = {
    "text": "Proof: 15 Lean theorems (8 properties, 2 constant and 5 source-text obligations) over an executable model of udpSessionEntry.Feed's destination handling (initConn/hook override, "
            "cache seeding, checkAddr with the 256-entry decision cache and arbitrary eviction victim): for every policy, every destination "
            "sequence, every dial/hook outcome and every eviction choice, each cached verdict equals the policy's (cache_sound, "
            "verdict_is_policy), every WriteTo goes to an allowed destination and a denied one never receives a datagram (writes_allowed, "
            "denied_never_written), a hooked session sends everything to the rewritten address and reports replies from the original "
            "(override_all, override_set), the cache holds at most maxSessionACLCache distinct keys (cache_bounded). Tied to the source by "
            "a regenerated constant and a differential on the real session manager that compares events and the full cache after every "
            "datagram, with the real map's eviction victim passed to the model.",
    "note": "Trusted: Lean kernel (+leanchecker), axioms propext/Quot.sound/Classical.choice at most; the Go harness (fakes) and hydrv; the "
            "Outbound contract UDP ok => CheckUDP ok and UDP(\"\") fails (a decide-checked counterexample shows it is needed); residual risk = "
            "implementation differs from the model on a history the generator did not draw.",
    "technique": "Lean 4 proof (cache-soundness invariant over arbitrary eviction) with exact differential correspondence on the real code",
}
