_GOTEST = {"kind": "gotest", "mod": "core", "pkg": "./server", "run": "^TestVerifC07$", "reset_re": "^reset", "timeout": 900}

CFG = {
    "props_module": "Hy.Props.C07",
    "gen_modules": ["core"],
    "level": "proof",
    "race": True,
    "streams": [
        dict(_GOTEST, component="udpsession", driver="udpsession", n={"quick": 8000, "thorough": 200000}),
    ],
    "rule": "histories of 5..40 stimuli on the REAL udpSessionManager inside a testing/synctest bubble (virtual clock, goroutine census), "
            "fake udpIO/UDPConn/logger/hook logging every environment call under one mutex; allow-all policy and no address rewriting "
            "(policy and override are C08's: CheckUDP calls, cache sizes and policy/override oracles are not part of this check): datagrams over 6 session ids (complete, "
            "fragmented by the real frag.FragUDPMessage then shuffled / truncated / duplicated / with disagreeing addresses, malformed "
            "fragment numbers), remote replies (send ok / error / blocked and later released / refused as too large and re-fragmented), "
            "injected read errors, dial / hook / write errors, a dial still in flight across the sweep (slowdial), an id re-used while the sweeper is inside Close() of the expired entry (slowclose), time advances across the idle timeout and the 1 s sweep (including exact "
            "equality), the receive loop's lookup separated from its Feed by sweeps and errors (stale-pointer feed), connection loss early "
            "and at the end. Each stimulus = the model's atomic steps for it; map iteration orders are read from the implementation. "
            "distinct = distinct op line; non-trivial = the stimulus made the code call its environment",
    "trusted_base": [
        "atomicity: each lock region / channel operation / environment call of udp.go is one atomic step of the model (supported by the "
        "-race run of the thorough tier, not proved); Last is an atomic value; only the receive loop calls entry.Feed",
        "CloseWithErr's second half (ExitFunc) is attributed to the entry, not to the calling goroutine's program counter: the model "
        "admits a superset of the real schedules",
        "environment contracts used by close_exactly_once: ReadFrom on a closed UDPConn returns an error; SendMessage on a lost QUIC "
        "connection returns an error; ReceiveMessage keeps failing after the connection is lost",
        "timer delivery (the 1 s ticker fires) and scheduling fairness appear as explicit hypotheses of idle_expiry / "
        "expiry_within_one_interval / close_exactly_once, they are not proved of the Go runtime",
        "the model Hy.Model.UdpSession is tied to core/server/udp.go by the stream `udpsession` (every environment call in order, the "
        "table with each session's Last and cache size, open sockets, live reply loops after every stimulus) and by idleCleanupInterval / "
        "maxSessionACLCache regenerated from the compiled package",
    ],
    "assumptions": [
        "time is the bubble's virtual clock; a tick at time t sees exactly the Last values stamped up to t",
        "the stale-pointer stimulus lets the harness goroutine play the receive loop between its lookup and entry.Feed "
        "(the receive loop itself is parked in ReceiveMessage meanwhile, so Feed still has a single caller)",
    ],
}

MANIFEST = {
    "text": "Proof: 29 Lean theorems (18 properties, 2 constant and 9 source-skeleton obligations) over a model of udpSessionManager as goroutine programs (receive loop, one reply loop per session, "
            "sweeper, the two halves of CloseWithErr, environment) with `forall sched : List Label`: a socket is written only with datagrams of "
            "the session that opened it and its packets go upstream tagged with that id (isolation, io_only_on_opened); the table is a function "
            "and the exit function deletes its own entry, never a newer one with the same id (table_functional, exit_deletes_own); Close() is "
            "never called twice on a socket, and after connection loss at quiescence every opened socket is closed exactly once, the table is "
            "empty and receive loop, sweeper and all reply loops have ended (close_at_most_once, close_exactly_once); a closed entry never gets "
            "a socket (no_socket_after_exit, no_new_socket_for_closed); a sweep selects exactly the entries idle longer than the timeout and "
            "closes them, within one interval given timer delivery, while an entry active within the timeout is never selected and the sweeper "
            "closes nothing else (tick_selects, idle_expiry, closed_leaves_table, expiry_within_one_interval, activity_keeps, "
            "sweeper_closes_only_selected, feed_refreshes, reply_refreshes); a datagram for a free id creates a new entry and a new socket "
            "(fresh_after_expiry). Tied to the source by trace comparison on the real manager in a synctest bubble, with model-free oracles "
            "for isolation, exactly-once close, empty table / no goroutine left, idle expiry and keep-alive.",
    "note": "Trusted: Lean kernel (+leanchecker), axioms propext/Quot.sound/Classical.choice at most; the Go harness (fakes) and hydrv; "
            "atomicity of lock regions (-race in thorough); timer delivery and fairness are hypotheses of the liveness theorems; residual "
            "risk = implementation differs from the model on a history/schedule the harness did not produce (it produces sequential "
            "histories plus blocked-send and stale-pointer interleavings, not arbitrary preemptions).",
    "technique": "Lean 4 proof (inductive invariant over all interleavings via a skeleton refinement) with trace correspondence on the real code",
}
