from .. import common as C


def gen_sites():
    C.gen_sites("C04", ["core/internal/protocol/proxy.go"], only=r":(ReadTCP|WriteTCP|varintPut)")


def gen_trans_varint():
    # Lean definition of varintPut TRANSLATED from the current source (Hy/Gen/TransVarint.lean);
    # Props/C04.lean proves it equal to Hy.Varint.enc for every value (varintPut_translation_*)
    C.gen_translate("Varint", ["core/internal/protocol/proxy.go:varintPut"])


CFG = {
    "gen_hooks": [gen_sites, gen_trans_varint],
    "props_module": "Hy.Props.C04",
    "gen_modules": ["core"],
    "level": "proof",
    "streams": [
        {"mod": "core", "component": "frame", "driver": "frame", "n": {"quick": 20000, "thorough": 1000000}},
    ],
    "rule": "frames generated from the protocol's own field structure (valid with any varint width per field, "
            "over-limit lengths at limit+1.., truncations at a random offset, random bytes, writer calls), each under a "
            "random chunking incl. 1-byte and empty reads; distinct = distinct op line; non-trivial = the reader "
            "returned a value or a protocol error (not a bare EOF), or the writer accepted the input",
    "trusted_base": [
        "quicvarint.Read/NewReader read one byte at a time without buffering; io.ReadFull/io.CopyN semantics (modelled)",
        "the model Hy.Model.Frame is tied to core/internal/protocol/proxy.go by the differential stream `frame` "
        "(result, bytes consumed from the transport, >1MiB allocation flag) and by constants regenerated from the compiled package",
    ],
    "assumptions": [
        "stream = list of chunks delivered by the transport; a (0,nil) read is an empty chunk",
        "padding bytes are an input of the model (the Go writer draws them at random)",
    ],
}

MANIFEST = {
    "text": "Proof: 16 Lean theorems over an executable model of ReadTCPRequest/ReadTCPResponse/WriteTCPRequest/WriteTCPResponse "
            "and the dispatcher's frame-type prefix: round trip for every address 1..2048 / message 0..2048, every padding, every legal "
            "varint width per field, every chunking (List of chunks, empty reads included) and every trailing payload, with the unread "
            "stream equal to exactly the trailing payload; over-limit/empty lengths rejected right after the varint with no allocation. "
            "The model is tied to the current source by regenerated constants and a 20k-case (quick) differential on result, bytes "
            "consumed and allocation.",
    "note": "Trusted: Lean kernel (+leanchecker), axioms propext/Quot.sound/Classical.choice at most; the Go harness and hydrv driver; "
            "quicvarint reads byte-at-a-time; residual risk = implementation differs from the model on an input the generator did not draw.",
    "technique": "Lean 4 proof (simulation between chunked and flat streams + codec round trip) with differential correspondence",
}
