CFG = {
    "props_module": "Hy.Props.C20",
    "gen_modules": ["extras"],
    "level": "proof",
    "race": True,   # thorough tier runs both streams on a -race build (the `conc` ops add/remove attempts while a reader drains the conn)
    "streams": [
        {"mod": "extras", "component": "punchcodec", "driver": "punchcodec",
         "n": {"quick": 6000, "thorough": 200000}},
        {"mod": "extras", "component": "punchconn", "driver": "punchconn", "reset_re": "^(reset|conc)",
         "n": {"quick": 4000, "thorough": 100000}},
        {"mod": "extras", "component": "punchsrv", "driver": "punchsrv", "reset_re": "^sreset",
         "n": {"quick": 2000, "thorough": 40000}},
    ],
    "rule": "punchcodec: the real EncodePunchPacket under a seeded crypto/rand (padding and salt recorded and passed to the model), "
            "DecodePunchPacket on reference-encoded packets that are valid / truncated at and inside the window / over-long / "
            "bit-flipped in salt, magic, type, nonce (every position incl. first and last byte) and padding / of a wrong type / "
            "decoded under a neighbouring nonce or key or another attempt / with refused metadata, random and QUIC-like bytes at "
            "lengths 0,32,33,34,1056,1057,1058; SHA-256 of random strings (Lean's own implementation vs crypto/sha256). "
            "punchconn: histories reset → add / refused add / re-add / remove / read / drain on the real PunchPacketConn over a fake "
            "wrapped conn: each read delivers 0..9 packets (QUIC-like, random, punch packets of live / removed / never-registered "
            "attempts and their mutations, 14 kinds of STUN and STUN-looking packets built with pion/stun) from usable and unusable "
            "source addresses, optionally an error; event buffers of 1..16; `discover`: the real DiscoverWithDemux (the consumer "
            "of the STUN event channel) runs on the same conn after stray STUN traffic (binding requests, indications, error "
            "responses, truncated messages, other transactions' responses) was read, the fake server staying silent / answering "
            "with a binding success / answering another transaction / answering with an error; `conc`: 1..3 goroutines add/remove volatile attempts and "
            "re-add stable ones while the reader cycles through the packets. distinct = distinct op line; non-trivial = a packet was "
            "produced/accepted/returned, an attempt was registered/removed, or events were drained. "
            "punchsrv: the real ServerPuncher on a real PunchPacketConn over a channel-fed fake conn with a pump reader: histories of "
            "Respond calls that stay in progress / run into a 10-30 ms deadline / are cancelled / re-use the id of a live attempt "
            "(same or other metadata) or of a finished one / race for one id / have refused arguments, tickers of 4-5 ms, and packets "
            "(hello/ack of attempts in progress, their mutations, packets of finished and foreign attempts, STUN, QUIC-like) from "
            "usable and unusable sources; after every op the harness waits for quiescence and compares returns, acks and hello "
            "bursts, the conn's registered attempts (read through an in-package shim), the puncher's routed ids and pass-through",
    "trusted_base": [
        "pion/stun IsMessage / Decode / XORMappedAddress.GetFrom / MappedAddress.GetFrom are an oracle: the harness calls them "
        "directly on every packet and passes the five verdicts to the model; theorems quantify over all verdicts",
        "the model Hy.Model.Punch is tied to extras/realm/{punch,punch_conn,stun,punch_engine}.go by the two differential streams "
        "(wire bytes of the real encoder vs the model with Lean's own SHA-256; accept/reject/type/padding of the real decoder; what "
        "ReadFrom returns, how many packets it consumed, both event channels' contents and drops) and by 12 regenerated constants",
        "atomicity of the modelled steps (AddPunchAttempt / RemovePunchAttempt lock regions, the RLock scan of decodePunchPacket; "
        "a single reader goroutine): supported by the `conc` ops (under -race in the thorough tier), not proved",
        "ServerPuncher: punch_engine.candidatePunchAddrs (family filter, de-duplication, symmetric-NAT expansion, sorting) is not "
        "modelled — the candidate list is an input; tickers, deadlines and cancellations are environment labels; each lock region / "
        "channel operation / conn call of Respond, addAttempt, removeAttempt and dispatch is one atomic step (race-tested, not proved)",
        "SHA-256 as a PRF for the cross-key clause: `decode_other_key` reduces acceptance under another key to a 200-bit "
        "coincidence between two digests (proved); that this does not happen is assumed",
    ],
    "assumptions": [
        "padding, salt (crypto/rand), the map iteration order over the attempts, pion/stun's verdicts and the source address are inputs of the model",
        "the wrapped conn returns err==nil only with a non-nil, non-typed-nil address (a typed-nil *net.UDPAddr would fault in addrToAddrPort)",
        "one goroutine calls ReadFrom (quic-go's receive loop)",
    ],
}

MANIFEST = {
    "text": "Proof: Lean theorems over an executable model of EncodePunchPacket/DecodePunchPacket and PunchPacketConn, for an arbitrary "
            "hash with non-empty digests (instantiated with a Lean SHA-256 checked against FIPS 180-4 vectors by the kernel): "
            "decode∘encode = id for every type, metadata, padding ≤ 1024 and salt; the exact acceptance condition of the decoder "
            "(length window, masked header = magic‖type‖nonce ⊕ mask); same key + other nonce never decodes; another key decodes iff "
            "two digests coincide on 200 bits; packets < 33 or > 1057 bytes, any changed magic/nonce byte and any single-bit flip in "
            "the 25 header bytes are rejected; the decoder never panics; ReadFrom withholds a packet iff it is a STUN binding response "
            "or (usable source and) decodes under a currently registered attempt, and otherwise returns it byte-identical with its "
            "source address; after removal an attempt diverts nothing; for every interleaving of add/remove/recv/scan steps each "
            "scan's verdict is determined by exactly the registrations and removals before it; every event on the STUN channel "
            "carries its parsed message, so the consumer (DiscoverWithDemux) never dereferences nil. ServerPuncher as a step system "
            "over any number of concurrent Respond calls: for every schedule and outcome a returned call has removed what it "
            "registered and the conn holds nothing on its behalf (no stale diversion once all calls returned), a duplicate id is "
            "refused without touching the conn, the registry entry of an id is always its holder's, and every ack answers a hello "
            "that decoded under a registered attempt, to that packet's source. Tied to the source by regenerated "
            "constants and three differential streams (the real ServerPuncher driven through generated histories; codec incl. the real encoder under seeded crypto/rand; the real conn incl. "
            "concurrent add/remove while reading).",
    "note": "Trusted: Lean kernel (+leanchecker), axioms propext/Quot.sound/Classical.choice at most; the Go harness and hydrv driver; "
            "pion/stun as an oracle; atomicity of the lock regions (race-tested, not proved); SHA-256 as a PRF for the cross-key clause. "
            "Residual risk = implementation differs from the model on an input the generators did not draw.",
    "technique": "Lean 4 proof (XOR-stream algebra, exact decoder characterisation, registry refinement + all-schedules invariants) with differential correspondence",
}
