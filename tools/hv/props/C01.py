"""C01 — no proxying before authentication on the same connection."""
import os
import re
import shutil
import subprocess

from .. import common as C


def lean_str(s):
    return '"' + s.replace("\\", "\\\\").replace('"', '\\"') + '"'


def gen_auth_shape():
    """Structural facts of core/server/server.go (go/ast, harness component `authshape`) ->
    lean/Hy/Gen/AuthShape.lean.  Used by C01 and C02."""
    b, o = C.build_harness("core")
    if b is None:
        raise RuntimeError("harness build failed: " + o[-500:])
    d = os.path.join(C.BUILD, "runs", "authshape-%d" % os.getpid())
    shutil.rmtree(d, ignore_errors=True)
    os.makedirs(d)
    ops = os.path.join(d, "in.ops")
    with open(ops, "w") as f:
        f.write("shape %s\n" % os.path.join(C.REPO, "core", "server", "server.go"))
    rc, out = C.run([b, "authshape", "-out", os.path.join(d, "out"), "-ops", ops], timeout=120)
    if rc != 0:
        raise RuntimeError("authshape failed: " + out[-500:])
    line = open(os.path.join(d, "out", "impl.txt")).read().rstrip("\n")
    shutil.rmtree(d, ignore_errors=True)
    facts = {}
    for part in line.split("\x1f"):
        if "\t" not in part:
            raise RuntimeError("authshape: " + line[:300])
        k, v = part.split("\t", 1)
        facts.setdefault(k, []).append(v)
    shape = (facts.get("shapeCond") or ["?"])[0]
    keys = ["flagDecls", "flagWrites", "authCalls", "udpManagers", "tcpSpawns", "dispatcherHead",
            "handlerCtors", "respWrites", "shapeCond", "h3ServerFields"]
    lines = ["/- REGENERATED from /repo/core/server/server.go on every run (go/ast; tools/hv/props/C01.py). Do not edit.",
             "   SHAPE abbreviates the condition of the first `if` of ServeHTTP (given in full as shapeCond). -/",
             "namespace Hy.Gen.AuthShape"]
    for k in keys:
        vs = facts.get(k, [])
        if k != "shapeCond":
            vs = [v.replace(shape, "SHAPE") for v in vs]
        lines.append("def %s : List String := [%s]" % (k, ", ".join(lean_str(v) for v in vs)))
    lines.append("end Hy.Gen.AuthShape")
    # (the caller holds the "lean" lock: check.py runs gen_hooks under it, warm.py takes it)
    C.write_gen_file("AuthShape", "\n".join(lines) + "\n")


RACE_ENV = {"GORACE": "exitcode=0 log_path={outdir}/race"}


def _first_frame(block, header_re):
    m = re.search(header_re + r"[^\n]*\n\s+(\S+)", block)
    return m.group(1) if m else ""


def race_reports(prop, component):
    """Thorough tier runs the harness under the race detector (exitcode=0, reports go to a log file so that the
    history stream still completes and is compared).  Every report is a failure: the model's atomic steps are not
    atomic in the implementation.  (The flag race of the originally pinned tree was repaired in /repo as D14.)"""
    def check(tier, seed, binaries):
        if tier != "thorough":
            return [], [], None
        import glob
        fl = []
        for f in sorted(glob.glob(os.path.join(C.BUILD, "runs", prop, component + "-*", "race.*"))):
            for block in open(f, errors="replace").read().split("=================="):
                if "DATA RACE" not in block:
                    continue
                w = _first_frame(block, r"(?:Previous write|Write) at")
                r = _first_frame(block, r"(?:Previous read|Read) at")
                fl.append({"component": component, "op": "(race detector, stream %s)" % os.path.basename(os.path.dirname(f)),
                           "ops": [], "impl": block.strip()[:1800],
                           "what": "O1: data race reported by the race detector (the model's atomic steps are not atomic): "
                                   "write in %s, read in %s" % (w or "?", r or "?")})
        return [], fl, "race detector (-race, thorough tier): %d report(s)" % len(fl)
    check.__name__ = "race_reports"
    return check


CFG = {
    "props_module": "Hy.Props.C01",
    "gen_modules": ["core"],
    "gen_hooks": [gen_auth_shape],
    "level": "proof",
    "race": True,
    "streams": [
        {"mod": "core", "component": "auth", "driver": "auth", "n": {"quick": 150, "thorough": 3000}, "timeout": 3000,
         "env": RACE_ENV},
    ],
    "extra_checks": [race_reports("C01", "auth")],
    # C01 counts only its own clauses (O1 gate, O2 no re-evaluation, O3 attribution to the right connection, O4 no reply
    # before acceptance); O5/O6 (masquerade equality, authenticator only for the auth shape) belong to C02
    "oracle_filter_re": r"^O[1-4]:",
    "rule": "one case = one history on 1-3 concurrent connections to one REAL server.NewServer on loopback (auth with accepted / "
            "rejected / blocking credentials, repeated and queued auth, near-miss and plain HTTP/3 requests, raw 0x401 streams with a "
            "TCPRequest (ok / failing dial / hooked / malformed), other raw streams, UDPMessage datagrams incl. malformed, closes), "
            "3-12 events (thorough: same generator, 20x histories), opening templates for the scenarios the property names; "
            "distinct = distinct op line; non-trivial = some request was accepted (233) or some proxy stream got a TCPResponse",
    "trusted_base": [
        "quic-go/http3 delivers a stream/datagram to the handler only after it arrived on that connection; ServeQUICConn returns only "
        "after every handler returned (used to make the effect log final, together with the goroutine count returning to its baseline)",
        "the unsynchronised read of h.authenticated in the dispatcher is modelled as an atomic read of a monotone boolean",
        "atomicity of the model's steps (authMutex region split at the authenticator call; one goroutine per TCP handler; one UDP manager)",
        "the model Hy.Model.Auth is tied to core/server/server.go by the differential stream `auth` (every client-visible outcome - HTTP "
        "answers abstracted to 233/other - and the per-connection order of every call into Authenticator/Outbound/EventLogger/"
        "TrafficLogger; WHICH requests the server treats as authentication requests is an observed input, C02 owns that clause), by go/ast facts "
        "(Hy.Gen.AuthShape: who writes the flag and under which guard, who starts the UDP manager, the dispatcher's guard, one handler per "
        "connection) and by constants read from the compiled package",
    ],
    "assumptions": [
        "datagrams queued by quic-go before authentication and consumed after it count as relayed after authentication",
        "the harness enforces one schedule per history (events are awaited; the authenticator blocks on demand); the theorems cover all schedules",
    ],
}

MANIFEST = {
    "text": "Proof: Lean theorems over an executable model of the server's per-connection authentication gate (authBegin / "
            "authVerdict / authCommit, stream dispatcher, TCP handler goroutines, UDP session manager, connection end) on any number "
            "of connections under EVERY interleaving (schedule = arbitrary list of step labels): every dial, relayed chunk, TCPResponse "
            "or UDPMessage of connection c is preceded by an accepting authenticator verdict for c; a connection's state depends only on "
            "its own steps; once authenticated the authenticator is never consulted again and the flag never falls; while a verdict is "
            "pending the connection behaves as unauthenticated. Tied to the source by go/ast facts, constants, and a differential against "
            "the REAL server on loopback (quick: 16 scenario histories + 150 generated) with a model-free oracle on the fakes' effect log.",
    "note": "Trusted: Lean kernel (+leanchecker); the Go harness and hydrv; quic-go/http3 stream/datagram delivery and ServeQUICConn's "
            "wait-for-handlers; atomicity granularity of the model's steps; residual risk = implementation differs from the model on a "
            "history the generator did not draw.",
    "technique": "Lean 4 proof (invariant over arbitrary interleavings of atomic steps, locality by construction) with trace correspondence against the real server",
}
