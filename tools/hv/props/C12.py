CFG = {
    "props_module": "Hy.Props.C12",
    "gen_modules": ["core"],
    "level": "proof",
    "streams": [
        {"mod": "core", "component": "ring", "driver": "ring", "reset_re": "^reset",
         "n": {"quick": 20000, "thorough": 400000}},
        {"mod": "core", "component": "pnq", "driver": "pnq", "reset_re": "^reset",
         "n": {"quick": 20000, "thorough": 400000}},
    ],
    "rule": "",
    "trusted_base": [],
    "assumptions": [],
}

MANIFEST = {"text": "", "note": "", "technique": ""}
