"""C12 — BBR survives any QUIC-consistent event sequence with sane outputs."""
import os
import re

from hv import common as C

BBR = "core/internal/congestion/bbr"

# (constant name, file, regex) — the Go panic sites the model makes explicit.  The counts are
# regenerated from the source on every run; Hy.Props.C12 opens with `decide`d obligations on them,
# so a new panic / index / division site in the anchored files breaks the build of the proof.
SITES = [
    ("c12_sender_panic_calls", BBR + "/bbr_sender.go", r"\bpanic\("),
    ("c12_sender_bwFromDelta_calls", BBR + "/bbr_sender.go", r"\bBandwidthFromDelta\("),
    ("c12_sender_gainTable_index", BBR + "/bbr_sender.go", r"\bpacingGain\[b\."),
    ("c12_sender_lastLost_index", BBR + "/bbr_sender.go", r"lostPackets\[len\(lostPackets\)-1\]"),
    ("c12_sender_lastAcked_index", BBR + "/bbr_sender.go", r"ackedPackets\[len\(ackedPackets\)-1\]"),
    ("c12_sender_uint64_div", BBR + "/bbr_sender.go", r"/ uint64\("),
    ("c12_ring_panic_calls", BBR + "/ringbuffer.go", r"\bpanic\("),
    ("c12_ring_index_exprs", BBR + "/ringbuffer.go", r"r\.ring\[[a-zA-Z.]+\]"),
    ("c12_pnq_panic_calls", BBR + "/packet_number_indexed_queue.go", r"\bpanic\("),
    ("c12_pacer_div_by_bw", "core/internal/congestion/common/pacer.go", r"diff ?[/%] ?bw"),
]


def _strip_go_comments(src):
    src = re.sub(r"/\*.*?\*/", "", src, flags=re.S)
    return "\n".join(re.sub(r"//.*$", "", ln) for ln in src.splitlines())


def gen_sites():
    lines = ["/- REGENERATED from /repo on every run (tools/hv/props/C12.py: counts of the Go panic /",
             "   index / division sites that Hy.Model.{Ring,Pnq,BbrCore} make explicit). Do not edit. -/",
             "namespace Hy.Gen"]
    for name, rel, rx in SITES:
        src = _strip_go_comments(open(os.path.join(C.REPO, rel)).read())
        lines.append("def %s : Nat := %d" % (name, len(re.findall(rx, src))))
    lines.append("end Hy.Gen")
    C.write_gen_file("C12Sites", "\n".join(lines) + "\n")


def gen_trans_ring():
    # Lean definitions of RingBuffer.Len / Empty / Offset / Front / Back TRANSLATED from the current source of
    # ringbuffer.go (Hy/Gen/TransRing.lean; a `*T` result `&r.ring[i]` is the bounds-checked index i);
    # Props/C12.lean proves them equal to Hy.Ring's len / empty / offsetPos / front / back (ring_*_translation_eq)
    R = "core/internal/congestion/bbr/ringbuffer.go:RingBuffer."
    C.gen_translate("Ring", [R + "Len", R + "Empty", R + "Offset", R + "Front", R + "Back"])


def gen_trans_bbr():
    # Lean definitions of the integer-only helpers of the BBR sender TRANSLATED from the current source
    # (Hy/Gen/TransBbr.lean); Props/C12.lean proves them equal to BbrCore.scaleWnd / minPk * n /
    # BbrCore.bandwidthFromDelta / BbrSampler.bandwidthFromDelta (bbr_*_translation_eq)
    B = "core/internal/congestion/bbr/"
    C.gen_translate("Bbr", [B + "bbr_sender.go:scaleByteWindowForDatagramSize",
                            B + "bbr_sender.go:minCongestionWindowForMaxDatagramSize",
                            B + "bandwidth.go:BandwidthFromDelta"],
                    types={"congestion.ByteCount": "int64"})


def utilisation(tier, seed, binaries):
    """Supporting evidence only (no theorem): delivered/capacity on the loss-free fixed-capacity
    traces of the last generated bbr stream, per profile."""
    import json
    path = os.path.join(C.BUILD, "runs", "C12", "bbr-gen", "ops.txt")
    per = {}
    slots = 0
    a0 = 0
    prtt = 0
    prtt_dwell = 0
    try:
        for ln in open(path):
            if ln.startswith("note clean-path"):
                m = re.search(r"profile=(\w+).*delivered/capacity=([0-9.]+)", ln)
                if m:
                    per.setdefault(m.group(1), []).append(float(m.group(2)))
            elif ln.startswith("note probe-rtt entered"):
                prtt += 1
                m = re.search(r"max-dwell=(\d+)ms", ln)
                if m:
                    prtt_dwell = max(prtt_dwell, int(m.group(1)))
            elif ln.startswith("note trace-end"):
                m = re.search(r"slots-max=(\d+) a0-max=(\d+)", ln)
                if m:
                    slots = max(slots, int(m.group(1)))
                    a0 = max(a0, int(m.group(2)))
    except OSError:
        return [], [], None
    info = {"supporting_evidence_only": "delivered/capacity on loss-free fixed-capacity simulated paths after start-up "
                                        "(a float-driven performance figure: NO theorem is offered for it)",
            "per_profile": {p: {"traces": len(v), "min": round(min(v), 3), "median": round(sorted(v)[len(v) // 2], 3)}
                            for p, v in sorted(per.items())},
            "stall_oracle (no theorem)": "on loss-free fixed-capacity traces: (a) never in PROBE_RTT longer than 10 x (200 ms + RTT + "
                                         "ack-aggregation period + 25 ms), (b) delivered/capacity >= 0.3 over a long window after start-up, "
                                         "(c) a sender with data and nothing in flight can always send",
            "traces_that_entered_PROBE_RTT": prtt, "max_PROBE_RTT_dwell_ms": prtt_dwell,
            "max_sampler_slots_in_use": slots, "max_a0_candidates (measured, not bounded by a theorem)": a0}
    return [], [], info


_BBR_N = {"quick": 400000, "thorough": 2000000}

CFG = {
    "props_module": "Hy.Props.C12",
    "gen_modules": ["core"],
    "gen_hooks": [gen_sites, gen_trans_ring, gen_trans_bbr],
    "level": "proof",
    "streams": [
        {"mod": "core", "component": "ring", "driver": "ring", "reset_re": "^reset",
         "n": {"quick": 10000, "thorough": 400000}},
        {"mod": "core", "component": "pnq", "driver": "pnq", "reset_re": "^reset",
         "n": {"quick": 10000, "thorough": 400000}},
        {"mod": "core", "component": "bbr", "driver": "bbr", "reset_re": "^new", "n": _BBR_N},
        # long fat loss-free paths (window reaches the 20000-packet cap): control logic replayed with RECORDED
        # sampler outputs (driver bbrcore) — the list-backed queue model would be slow with 20000 packets in flight
        {"mod": "core", "component": "bbrfat", "driver": "bbrcore", "reset_re": "^new",
         "n": {"quick": 90000, "thorough": 900000}},
    ] + [
        # thorough tier: 20 x 1000 traces with different seeds (each chunk's files are overwritten by the next)
        {"mod": "core", "component": "bbr", "driver": "bbr", "reset_re": "^new", "seed_add": 1000 * k,
         "n": {"quick": 0, "thorough": 2000000}} for k in range(1, 20)
    ],
    "extra_checks": [utilisation],
    "rule": "ring/pnq: random operation sequences on the real containers (T = uint64) from Init(0..8,256): pushes with "
            "growth and wrap-around, pops incl. on empty, Offset in / at / past the end and negative, clear, grow inside and "
            "outside its precondition; Emplace in order, with gaps (1..300), out of order, duplicate, nil, invalid, after a "
            "packet-number restart; Remove / RemoveUpTo at and around first/last; the RAW representation is compared after "
            "every op.  bbr: traces of ~2000 calls (OnPacketSent / OnCongestionEventEx / SetMaxDatagramSize) produced by a "
            "bottleneck simulator (capacity 30 kB/s..300 MB/s, RTT 0.2..400 ms, queue 0.05..8 BDP, random loss 0..30 %, "
            "blackouts, jitter/reordering, delayed and aggregated and lost ACKs, on/off / rate-limited / tiny-write "
            "applications, skipped packet numbers, ack-only packets, Initial+Handshake+1-RTT number spaces or late "
            "installation, MTU probes raising the datagram size) driving the REAL bbrSender in closed loop for the three "
            "profiles; distinct = distinct op line; non-trivial = a call that reaches the sender",
    "trusted_base": [
        "Hy.Model.Ring / Hy.Model.Pnq are tied to ringbuffer.go / packet_number_indexed_queue.go by an exact differential on "
        "the raw representation (backing slice, headPos, tailPos, full, numberOfPresentEntries, firstPacket) after every op",
        "Hy.Model.BbrSampler (bandwidth_sampler.go + windowed_filter.go, with Go's wrapping int64/uint64 arithmetic and truncating "
        "divisions; the one float expression threshold*float64(x) with threshold in {1,2}, |x| < 2^31 is an exact integer product) and "
        "the sender's max-bandwidth filter are tied to the code by an EXACT differential inside the bbr stream: after every call the "
        "model's sampler state (byte totals, last acked/sent packet state, app-limited flag and end marker, slots / firstPacket / present "
        "entries of the packet map, number of A0 candidates, recent ack points, aggregation epoch, the three ack-height estimates, the "
        "three max-bandwidth estimates) and the sample returned for the event (obtained from the real sampler by running the real "
        "OnCongestionEvent on a copy taken just before the call) are compared with the implementation's",
        "Hy.Model.BbrCore is tied to bbr_sender.go by trace validation with the sampler COMPUTED by the model; only rttStats.MinRTT() and "
        "the float-scaled values are recorded from the implementation (getTargetCongestionWindow(gain) via the real method; gain*bw, "
        "bw*1.25, inflight*0.02, the maybeAppLimited decision and the float->int64 conversion of the pacing rate by the same Go expression "
        "on the recorded operands); the model must reproduce all 33 control fields plus GetCongestionWindow, bandwidthForPacer, CanSend(0) "
        "and leastUnacked.  On the long fat-path traces (stream bbrfat, 20000 packets in flight) the sampler outputs are recorded as well",
        "IEEE float arithmetic is NOT modelled: float-scaled results are universally quantified inputs (`Env`) of every theorem of layer "
        "(b) (over-approximation, sound for safety); the theorems of layer (b) also quantify over all sampler outputs",
        "control logic (layer b) and pacer: int64/uint64 arithmetic does not overflow (byte counters of one connection < 2^62, bandwidth x "
        "idle time < 2^63 in the pacer); the sampler model (layer c) wraps exactly as Go does",
        "QUIC-consistency is pinned to quic-go's sent_packet_handler.go: OnCongestionEventEx only with a non-empty acked U lost set; "
        "datagram size non-decreasing; SetRTTStatsProvider called at installation; MinRTT() != 0 once a bandwidth sample exists "
        "(hysteria installs the controller after the handshake; RTTStats.minRTT is never reset to 0); the seed datagram size is "
        "min(QUIC's initial size, 1280|1200) (utils.go seedPacketSize), i.e. never above the pacer's built-in 1280",
        "panic-site table: counts of panic()/index/division sites in the anchored files are regenerated into Hy.Gen.C12Sites and "
        "checked by `decide`",
    ],
    "assumptions": [
        "packet numbers are >= -1 (-1 = invalidPacketNumber); times are non-negative monotime nanoseconds",
        "the gain comparisons `pacingGain > 1` / `< 1` are decided on the symbolic gain (highGain > 1 > 1/highGain for the three "
        "profiles: obligation profiles_high_gain; table entries in hundredths)",
        "'does not settle far below capacity on a loss-free path' is a quantitative claim about a float-driven control loop: "
        "no theorem is offered; it is covered by supporting evidence (delivered/capacity per profile) + model-free stall oracles on the "
        "simulator (PROBE_RTT dwell bound, goodput floor 0.3, no deadlock); every 25th trace is a loss-free slow path with ack "
        "aggregation / delayed acks run for > 12 simulated seconds so that PROBE_RTT is entered and must be left",
    ],
}

MANIFEST = {
    "text": "Proof (Lean 4) over executable models of ringbuffer.go, packet_number_indexed_queue.go and the control logic of "
            "bbr_sender.go (+ pacer.go's wake-up rule), for every operation / event sequence: the ring refines a list deque "
            "(push with grow and wrap, pop, offset, front, back, clear) and panics exactly where the deque is empty / the index "
            "is past the end; the packet-number queue keeps its invariant and never panics under Emplace/Remove/RemoveUpTo/"
            "GetEntry with arbitrary packet numbers (gaps, restarts, duplicates) and after RemoveUpTo(k) uses at most "
            "lastEmplaced-k+1 slots; after construction and after every QUIC-consistent call, in every mode and recovery state "
            "and across SetMaxDatagramSize, 4*mds <= GetCongestionWindow <= 20000*mds, the recovery window is floored at 4*mds, "
            "bandwidthForPacer >= 65536, the gain-cycle index is < 8, no panic site is reached, CanSend(0) holds and the pacer's "
            "announced wake-up time grants a full datagram — with the sampler's outputs and all float-scaled quantities as "
            "arbitrary inputs. Tied to the source by regenerated constants + panic-site counts, an exact differential on the "
            "containers, and trace validation of the sender on ~300 (quick) / 20 000 (thorough) simulated connections with "
            "model-free oracles on the real code after every call. Layer (c): exact executable model of the bandwidth sampler and the "
            "windowed filters (wrapping integer arithmetic), compared field by field with the real sampler after every call; theorems: the "
            "sampler never panics for any call sequence with packet numbers >= -1 and int64 times, its per-packet bandwidth sample is "
            "min(send rate, ack rate) <= send rate, its entries are bounded through the queue theorem after RemoveObsoletePackets, and the "
            "windowed filter's best estimate is a fed sample that dominates every later sample and is never older than the window (it is "
            "NOT the exact window maximum: decide-checked counterexample).",
    "note": "Trusted: Lean kernel (+leanchecker), axioms propext/Quot.sound/Classical.choice at most; the Go harness (simulator, "
            "sampler-copy replay) and hydrv; floats are inputs, not modelled; no int64 overflow in the control logic. NOT proved: "
            "'does not settle far below capacity' (delivered/capacity per profile reported as supporting evidence only); "
            "a0Candidates growth (measured). Residual risk: the implementation differs from the model on a trace the simulator "
            "did not draw.",
    "technique": "Lean 4 proof (refinement + inductive invariants over arbitrary event sequences with environment-supplied "
                 "nondeterminism) with exact differential / trace-validation correspondence",
}
