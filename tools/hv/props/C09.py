CFG = {
    "props_module": "Hy.Props.C09",
    "gen_modules": ["extras"],
    "level": "proof",
    "streams": [
        {"mod": "extras", "component": "acl", "driver": "acl", "reset_re": "^rules",
         "n": {"quick": 60000, "thorough": 1500000}},
    ],
    "rule": "rule files in the ASCII grammar outbound(address[,proto/port[,hijack]]) built around one theme domain / IPv4 / IPv6 / port "
            "per file so that rules interact (wildcard vs exact vs suffix with and without the dot boundary, adjacent port ranges, ranges "
            "starting at 0, IPv4 CIDRs of every prefix length, IPv6 and v4-mapped CIDRs, built-in and user outbounds, hijack addresses, odd "
            "but legal spellings, ~1/3 of the files refused for one bad field or line); each file gets a lookup history with heavy "
            "repetition on a cache of 1..64 entries, or on the engine's own constructor and cache size with more distinct keys than it "
            "holds, every key asked again after its eviction; queries hit the rules' boundaries (names, 4- and 16-byte address forms, "
            "ports lo-1/lo/hi/hi+1) and go through the real aclEngine.handle on an AddrEx whose ResolveInfo takes every shape: absent; present with "
            "v4 only / v6 only / both / neither; and each of these with Err set (A ok + AAAA failed, the reverse, total failure). distinct = distinct op line; non-trivial = a rule file was loaded or refused, or a lookup was "
            "decided by a rule (not by the default)",
    "trusted_base": [
        "hashicorp/golang-lru contract: Get returns only what was Added under that key; Get and Add are atomic (its mutex)",
        "net.IP.String / netip.Addr.String are injective on the To4-normalised address, so HostInfo.String() identifies "
        "(name, To4(IPv4), To4(IPv6)); the model's key keeps exactly these components",
        "idna.ToUnicode is a parameter of the model (any function); the harness computes it for each queried name",
        "net.ParseIP / net.ParseCIDR / IP.Equal / IPNet.Contains / strconv.ParseUint / regexp are modelled in Lean from their "
        "Go 1.25 sources and tied by the differential only (no theorem is about them); geoip:/geosite: matchers and non-ASCII rule "
        "text are outside the model",
        "the model Hy.Model.Acl is tied to extras/outbounds/acl/*.go and aclEngine.handle by the differential stream `acl` that "
        "starts from the rule TEXT (compiled-rule dump, error line and kind, per-lookup decision, hijack rewriting, cache hit/miss "
        "and population with the LRU's eviction victim passed to the model) and by the regenerated constant aclCacheSize",
    ],
    "assumptions": [
        "engine level: the lookup is built from the request's name and EVERY address its ResolveInfo carries, whether or not "
        "ResolveInfo.Err is set (interface.go: a resolution can carry an error and addresses); theorem engine_consults_every_address, "
        "model-free oracle `handle vs Match on the full HostInfo`",
        "the eviction victim of the LRU is an input of the model (observed on the real cache by the harness); theorems hold for every choice",
        "concurrent Match calls: the atomic steps are Cache.Get and Cache.Add; the rule list is immutable after Compile",
        "a port specification of 0 alone (or 0-0) means `any port` also after the D8 repair (DESIGN section 7: not claimed otherwise)",
    ],
}

MANIFEST = {
    "text": "Proof: Lean theorems over an executable model of the ACL (text front end, compileHostMatcher, parseProtoPort, "
            "compiledRule.Match, the cached compiledRuleSetImpl.Match, aclEngine.handle): a lookup returns the outbound and hijack "
            "address of the first rule in file order whose protocol, inclusive port range and address pattern match, the default "
            "otherwise; for every lookup history of any length and every eviction behaviour of the cache, sequential or with Get/Add "
            "of concurrent calls interleaved arbitrarily, each answer equals the uncached evaluation; the cache key determines every "
            "rule's verdict; the wildcard matcher equals its inductive specification, suffix: has the dot boundary, names compare "
            "case-insensitively and ignoring trailing dots, parseProtoPort is correct on the documented forms. Tied to the source on "
            "every run by a 60k-operation (quick) differential from the rule text on the real ParseTextRules+Compile+Match+handle, with "
            "two model-free oracles on the real code: every lookup repeated on a freshly compiled rule set, and an independent "
            "reference evaluator. Defect D8 (a port range starting at 0 matched every port) was found by the oracle and repaired "
            "(fixes/D8.patch); the pinned behaviour is kept as a decide-checked counterexample.",
    "note": "Trusted: Lean kernel (+leanchecker), axioms propext/Quot.sound/Classical.choice at most; the Go harness and hydrv driver; "
            "golang-lru's Get/Add contract; injectivity of net.IP.String; Go's net/netip/strconv/regexp as modelled. Outside: geoip:/geosite:, "
            "non-ASCII rule text. Residual risk = implementation differs from the model on an input the generator did not draw.",
    "technique": "Lean 4 proof (cache-soundness invariant under arbitrary eviction and interleaving; matcher specifications) with "
                 "differential correspondence from the rule text and two model-free oracles",
}
