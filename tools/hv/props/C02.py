"""C02 — unauthenticated peers see only the masquerade web server."""
from .C01 import gen_auth_shape, race_reports, RACE_ENV

CFG = {
    "props_module": "Hy.Props.C02",
    "gen_modules": ["core"],
    "gen_hooks": [gen_auth_shape],
    "level": "proof",
    "race": True,
    "streams": [
        {"mod": "core", "component": "masq", "driver": "masq", "reset_re": "^reset",
         "n": {"quick": 300, "thorough": 10000}, "timeout": 3000, "env": RACE_ENV},
    ],
    "extra_checks": [race_reports("C02", "masq")],
    "rule": "one case = one op of a history against the REAL server on loopback (reset cfg / request / raw 0x401 stream / datagram / "
            "end); requests: exactly one coordinate off POST hysteria /auth (method in POST GET PUT post DELETE; authority in hysteria "
            "Hysteria hysteria:443 hysteria. other.example HYSTERIA hysteria.example xhysteria; path in /auth /auth/ /AUTH //auth /auth?x=1 "
            "/ /%61uth /auth%2f /authx /index.html /auth? /auth/x), arbitrary triples, the exact shape with rejected / accepted / "
            "absent credentials, each with every subset of Hysteria-Auth / Hysteria-CC-RX / Hysteria-Padding, about every third request with ODD Hysteria-* request header values (Hysteria-CC-RX non-numeric / negative / hex / "
            "'auto' / 2^64 / empty / float / repeated / blanks, padding empty / 8000 chars / repeated / outside the alphabet, credentials repeated / 5000 chars), "
            "about every fourth request with a LARGE extra header set "
            "(3 KiB, 4.2 KiB, 5 KB, 6 KiB, 20 KiB, 100 KiB in one header; 40x120 B and 160x110 B in many); MasqHandler nil, a logging "
            "404 wrapper, or a custom handler whose status/headers/body depend on the request; non-trivial = request or stream ops",
    "trusted_base": [
        "net/http + quic-go/http3 request parsing: the (Method, Host, URL.Path) the handler receives is an INPUT of the model (taken from "
        "what the masquerade handler logged, else from url.ParseRequestURI of what the raw client sent)",
        "net/http + quic-go/http3 deliver every request whose header section is below the library's limit (1 MiB: no MaxHeaderBytes is "
        "configured, Gen fact h3ServerFields) to ServeHTTP - an assumption tied by the `masq` stream, which sends header sets of 3 KiB .. "
        "100 KiB (one large Cookie / X-* header, or 40 / 160 small ones) on every request shape with the default and the custom handler",
        "the model Hy.Model.Masq.serve is tied to h3sHandler.ServeHTTP by the differential stream `masq` (whole response: status, "
        "headers minus Date/Content-Length, body; whether the authenticator was consulted), by go/ast facts (every use of the "
        "ResponseWriter other than the masquerade call sits under the authenticated / ok branch; the shape condition) and by constants",
        "an unauthenticated raw stream is answered by quic-go/http3 with a stream reset (observed, not modelled)",
    ],
    "assumptions": [
        "the masquerade handler is a parameter of the model (its response on a recorder is passed to the driver)",
    ],
}

MANIFEST = {
    "text": "Proof: Lean theorems over ServeHTTP as a function (request triple, connection flag, authenticator, masquerade handler as a "
            "parameter): every request that is not an accepted authentication gets exactly the masquerade handler's response and leaves "
            "the flag unchanged; no status 233 and no Hysteria-* header unless the handler itself produces one (never with the default "
            "404 handler); 233 exactly for POST hysteria /auth accepted now or earlier; and, from the C01 model, no TCPResponse and no "
            "UDPMessage on a connection without an accepted authentication under every interleaving. Tied to the source by go/ast facts, "
            "constants, and a whole-response differential against the REAL server on loopback with the same handler on an httptest "
            "recorder as oracle (quick: a 712-op sweep of every method x authority x path of the tables + 300 generated ops).",
    "note": "Trusted: Lean kernel (+leanchecker); the Go harness and hydrv; net/http + http3 request parsing (the triple is an input); "
            "residual risk = implementation differs from the model on a request the generator did not draw.",
    "technique": "Lean 4 proof (case analysis of the handler function; corollaries of the C01 interleaving invariant) with whole-response differential",
}
