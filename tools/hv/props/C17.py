CFG = {
    "props_module": "Hy.Props.C17",
    "gen_modules": ["extras"],
    "level": "proof",
    "streams": [
        {"mod": "extras", "component": "sniff", "driver": "sniff", "n": {"quick": 5000, "thorough": 60000}},
        # n = batches of 6 concurrent end-to-end cases (real server + real Sniffer + recording outbound + real client)
        {"mod": "extras", "component": "sniffe2e", "driver": "sniff", "n": {"quick": 8, "thorough": 60}},
    ],
    "rule": "Sniffer.TCP on a scripted HyStream (valid HTTP requests with header blocks from a few bytes to > 256 KiB and Host = "
            "name / name:port / v4 / [v6] / [v6]:port / absent / absolute-URI / malformed; TLS ClientHello records (the suite's sample "
            "and hand-built ones) with declared length </=/> delivered bytes, other record types and versions, mutated and non-hello "
            "bodies; garbage at the isHTTP/isTLS byte boundaries; empty) under a random chunking incl. 1-byte and empty reads, a read "
            "deadline firing after k Read calls (k from 0), EOF with or after the last bytes; Sniffer.UDP on cap==len copies of QUIC "
            "Initials (the suite's samples; built per RFC 9001 with v1/v2, any DCID/SCID/token length, pn length 1..4, CRYPTO frames "
            "in order / shuffled / with gaps / non-zero start / empty duplicates / other frame types, with and without SNI), their "
            "truncation at every offset, a bit flip at every offset, short-header and other long-header types, version and length-field "
            "games, random and empty datagrams; op `two`: 2-4 streams (every HTTP/TLS/unrecognised combination) through ONE Sniffer in "
            "sequence, every returned replay slice kept uncopied and all oracles evaluated after the last stream (shared/pooled buffer "
            "aliasing). Stream `sniffe2e`: batches of 6 concurrent END-TO-END cases - real core/server with the real Sniffer as RequestHook and a "
            "recording Outbound, real core/client over loopback; HTTP / TLS / garbage first bytes followed by up to 70 kB more payload, "
            "1-4 client writes with a pause of 2.5x the sniff timeout before a chosen write (incl. before the first, inside the header / "
            "record, after it), slow dials, hooked and unhooked destinations; QUIC Initials (suite sample, built, random) + a second "
            "datagram; oracle: target bytes == client bytes, dialled once, host from the bytes / port unchanged, banner comes back intact. distinct = distinct op line; non-trivial = the 3-byte probe completed (TCP) or the header "
            "parser accepted the datagram so that UnProtect is reached (UDP)",
    "trusted_base": [
        "net/http.ReadRequest behind bufio+io.LimitReader is an arbitrary sequence of Read calls whose first asks for >= 3 bytes "
        "(bufio's buffer size 4096 and sniffMaxHTTPHeaderBytes are regenerated from the compiled packages and checked by const_bufio) "
        "and an arbitrary function from the bytes it was handed to an optional Host; utls.UnmarshalClientHello is an arbitrary "
        "function from the handshake bytes to an optional server name",
        "AES header protection returns a block (the code indexes mask[0..4]); the AEAD is an arbitrary partial function; sort.Slice "
        "permutes in place (keeps the length); HKDF / AES / GCM construction with fixed key sizes does not fail",
        "net.SplitHostPort / net.JoinHostPort are modelled on byte strings (Hy.Model.Sniff) and compared through the rewritten address "
        "on every case of the differential",
        "the models Hy.Model.Sniff / Hy.Model.QuicInitial are tied to extras/sniff/sniff.go and extras/sniff/internal/quic/*.go by the "
        "differential stream `sniff` (replay bytes, rewritten address, unread remainder, abort; packet after the hook, address, error, "
        "extracted CRYPTO payload, panic) with the parsers'/crypto's recorded behaviour passed to the model, and by regenerated constants",
        "the returned replay slice is owned by the call: a Go-level aliasing hazard outside the value model, tied only by the harness op "
        "`two` and the regenerated go/ast facts of const_no_shared_buffer (no package-level variable, no sync import, no buffer field on Sniffer)",
        "the server's composition (core/server/server.go hook branch, core/server/udp.go Feed/initConn) is modelled in "
        "Hy.Model.SniffServer assuming the dial succeeds, tConn.Write(putback) accepts all of it and the relay delivers the unread "
        "remainder in order (C06); tied by the end-to-end stream `sniffe2e` on target bytes, dial address and response count",
    ],
    "assumptions": [
        "stream = list of chunks delivered by the transport; an empty chunk is a (0, nil) read; after the deadline fires every Read "
        "fails until the deadline is reset; SetReadDeadline itself succeeds",
        "port_preserved needs the sniffed name to be free of stray brackets after normalisation (valid Host values and DNS names are); "
        "the unconditional statement is false and kept as port_preserved_full with a proved counterexample",
        "the packet slice handed to the UDP hook has cap == len (harness copies); with the repairs no access goes past len anyway",
        "Sniffer.Check / the port filter is not modelled (C19); it only decides whether the hook runs",
    ],
}

MANIFEST = {
    "text": "Proof: 25 Lean theorems over executable models of Sniffer.TCP (3-byte probe, tee reader under an ARBITRARY HTTP parser, "
            "TLS record arithmetic, early returns, SplitHostPort/JoinHostPort rewriting) and of the QUIC sniffer chain "
            "(parseLongHeader, ReadCryptoPayload, UnProtect with the packet buffer threaded through as a value, extractCryptoFrames, "
            "assembleCryptoFrames, Sniffer.UDP) in a result type where every Go index/slice can panic explicitly: replay ++ unread = sent "
            "for every byte stream, chunking, deadline point and parser behaviour; early returns hand back exactly the bytes read; the "
            "host comes only from what the parser found in exactly those bytes and the port from the original address; the UDP packet "
            "is handed back unchanged for every outcome; nothing in either chain can fault for any input and any behaviour of "
            "AES/AEAD/sort/utls. Three defects of the pinned tree (D2 10-byte datagram crash, D3 in-place decryption of the forwarded "
            "packet, D12 double-bracketed IPv6 Host) are decide-checked witnesses; the main model is the repaired code. Tied to the "
            "source by regenerated constants and a 5k-case (quick) differential with model-free oracles on the real code.",
    "note": "Trusted: Lean kernel (+leanchecker), axioms propext/Quot.sound/Classical.choice at most; the Go harness and hydrv driver; "
            "net/http, bufio, utls, AES/GCM/HKDF and sort.Slice as parameters with the stated contracts; residual risk = the "
            "implementation differs from the model on an input the generator did not draw.",
    "technique": "Lean 4 proof (invariant over arbitrary parser reads; panic-explicit decoders with compositional totality) with "
                 "differential correspondence and model-free oracles",
}
