"""C10 — Negotiated send rate never exceeds either side's declared limit."""
import difflib
import hashlib
import json
import os
import re
import subprocess

from .. import common as C

UTILS_REL = os.path.join("core", "internal", "congestion", "utils.go")
HOOK_FUNCS = "UseBrutal,UseBBR,UseConfigured"


def gen_hooks_c10():
    """Regenerate, from /repo's CURRENT utils.go, the instrumented copy the handshake stream
    compiles instead of it (tools/c10hook inserts one verifTrace call as the first statement of
    UseBrutal/UseBBR/UseConfigured and wraps every SetCongestionControl argument in
    verifInstalled), register it in .build/overlay-extra.json, keep its diff as evidence, and
    check the site fact the observation relies on: congestion/utils.go is the only place in
    core/ that hands a controller to quic-go."""
    src = os.path.join(C.REPO, UTILS_REL)
    outdir = os.path.join(C.BUILD, "c10")
    os.makedirs(outdir, exist_ok=True)
    out = os.path.join(outdir, "utils_instrumented.go")
    tool = os.path.join(C.VERIF, "tools", "c10hook", "main.go")
    # the rewriter itself is standard-library Go; its binary is rebuilt only when its source changes
    toolbin = os.path.join(outdir, "c10hook-" + hashlib.sha1(open(tool, "rb").read()).hexdigest()[:12])
    if not os.path.exists(toolbin):
        rc, o = C.run(["go", "build", "-o", toolbin, tool], cwd=os.path.join(C.REPO, "core"), env=C.goenv(), timeout=300)
        if rc != 0:
            raise RuntimeError("building tools/c10hook failed: " + o[-800:])
    rc, o = C.run([toolbin, "-in", src, "-out", out + ".tmp", "-funcs", HOOK_FUNCS], timeout=60)
    m = re.search(r"traced=(\d+) wrapped=(\d+)", o)
    if rc != 0 or not m:
        raise RuntimeError("c10hook failed on %s: %s" % (src, o[-800:]))
    if int(m.group(1)) != len(HOOK_FUNCS.split(",")) or int(m.group(2)) < 2:
        raise RuntimeError("c10hook: unexpected instrumentation shape: " + m.group(0))
    os.replace(out + ".tmp", out)
    # the inserted lines and nothing else
    a = open(src).read().splitlines()
    b = open(out).read().splitlines()
    diff = list(difflib.unified_diff(a, b, "repo/" + UTILS_REL, "instrumented", lineterm="", n=0))
    # the copy must be the original plus the inserted calls and nothing else: compare the two
    # texts with whitespace, the generated-file header, the inserted call texts and (because a
    # wrap adds one) closing parentheses removed
    strip = lambda s: re.sub(r"\s+", "", s)  # noqa: E731
    ta = strip(re.sub(r"(?m)^//.*$", "", "\n".join(a))).replace(")", "")
    tb = strip(re.sub(r"(?m)^//.*$", "", "\n".join(b)))
    tb = re.sub(r'verifTrace\("\w+"(,\w+)*\)', "", tb)
    tb = re.sub(r"verifInstalled\(\w+(\.\w+)*,", "", tb).replace(")", "")
    if ta != tb:
        raise RuntimeError("instrumented utils.go differs from the original by more than the inserted calls")
    # like evidence/C10.json: runs against a scratch copy do not overwrite the evidence of /repo
    edir = os.path.join(C.VERIF, "evidence") if os.path.realpath(C.REPO) == "/repo" else os.path.join(C.BUILD, "evidence-scratch")
    os.makedirs(edir, exist_ok=True)
    with open(os.path.join(edir, "C10-hooks.diff"), "w") as f:
        f.write("\n".join(diff) + "\n")
    # register (replace any earlier entry for this file, whatever tree it pointed into)
    extra = os.path.join(C.BUILD, "overlay-extra.json")
    with C.Lock("overlay-extra"):
        cur = {}
        if os.path.exists(extra):
            try:
                cur = json.load(open(extra))
            except Exception:  # noqa
                cur = {}
        cur = {k: v for k, v in cur.items() if not k.endswith(os.sep + UTILS_REL)}
        cur[src] = out
        tmp = extra + ".%d" % os.getpid()
        with open(tmp, "w") as f:
            json.dump(cur, f, indent=1, sort_keys=True)
        os.replace(tmp, extra)
    # site fact
    p = subprocess.run(["grep", "-rl", "--include=*.go", "SetCongestionControl(", os.path.join(C.REPO, "core")],
                       stdout=subprocess.PIPE, text=True)
    others = [x for x in p.stdout.split() if not x.endswith("_test.go") and os.path.abspath(x) != os.path.abspath(src)]
    if others:
        raise RuntimeError("SetCongestionControl is now also called outside congestion/utils.go (unobserved install sites): %s" % others)


CFG = {
    "props_module": "Hy.Props.C10",
    "gen_modules": ["core", "app"],
    # before the harness build: the core binary itself contains the handshake component, and
    # must be compiled from the freshly instrumented copy of the CURRENT utils.go
    "pre_build_hooks": [gen_hooks_c10],
    "level": "proof",
    "streams": [
        {"mod": "core", "component": "ratecodec", "driver": "rate", "n": {"quick": 20000, "thorough": 400000}},
        {"mod": "core", "component": "ratehs", "driver": "rate", "n": {"quick": 180, "thorough": 6200}, "timeout": 1500},
        {"mod": "app", "component": "ratecfg", "driver": "rate", "n": {"quick": 15000, "thorough": 400000}},
    ],
    "rule": "ratecodec: every boundary uint64 and ~130 junk header values (missing, empty, signed, blank-padded, hex/exp/underscore forms, "
            "non-ASCII digits, 'auto' near-misses, values around 2^64 and around strconv's cutoff, 200-digit strings, multi-valued) through "
            "AuthRequest/AuthResponse From/ToHeader and ParseUint, then random ones; ratehs: real loopback handshakes — quick: 180 samples that "
            "visit every (declared, own limit, ignore) triple of each side's rule at least twice, thorough: the full grid "
            "{0,65536,65537,10^6,2^63,2^64-1}^4 x ignore x {bbr,reno} = 5184 plus off-grid extras; raw HTTP/3 clients with hand-crafted "
            "Hysteria-CC-RX against real servers and a bare HTTP/3 server answering real clients; distinct = distinct op line; "
            "non-trivial = the handshake completed and a controller decision was observed (codec: value parsed non-zero/auto or formatted); "
            "ratecfg: the REAL utils.StringToBps/ConvBandwidth, app/cmd fillBandwidthConfig (client and server) and core fill/verifyAndFill "
            "on every (number, unit) pair over 0, the 8-bit rounding edge, the 65536 floor in every unit, each unit's overflow edge "
            "floor((2^64-1)/unit)+-1, 2^64+-1 and products = 0 mod 2^64; every unit spelling/case, ~35 near-miss units, ASCII and Unicode "
            "blanks, Kelvin sign, invalid UTF-8, garbage; config pairs absent/blank/invalid/below-at-above the floor; then random ones",
    "trusted_base": [
        "the model Hy.Model.Rate is tied to core/internal/protocol/http.go by the differential stream `ratecodec` and to "
        "core/server/server.go + core/client/client.go + core/internal/congestion/utils.go by the stream `ratehs` (real handshakes: "
        "authenticator tx, EventLogger.Connect tx, HandshakeInfo.Tx, controller installed on each quic.Conn)",
        "the installed controller is observed through an instrumented copy of congestion/utils.go regenerated on every run from the "
        "working tree by tools/c10hook (go/ast; inserts verifTrace/verifInstalled calls only; diff in evidence/C10-hooks.diff, checked "
        "to contain nothing else) and the fact, re-checked on every run, that no other file of core/ calls SetCongestionControl",
        "the enforced rate is taken to be the bps the Brutal sender is constructed with (BrutalSender.bps read back as uint64); "
        "its pacing is C11's subject. For rates >= 2^63 that field (congestion.ByteCount = int64) is negative: outside this property",
        "quic-go http3 delivers header field values to the handler unchanged or as reported (the value actually delivered is "
        "observed through a second header and is what the model is given)",
        "strconv.ParseUint/FormatUint are modelled (parseGo/decDigits) and compared directly (op `pu`)",
        "configuration layer: Hy.Model.RateConfig is tied to app/internal/utils/bpsconv.go, app/cmd/{client,server}.go fillBandwidthConfig and "
        "core/{server,client}/config.go by the stream `ratecfg` (in-package shims harness/app/cmd, harness/core/{server,client}); the unit "
        "factors and the two Unicode facts used (IsSpace runes >= 0x80, runes whose ToLower is ASCII) are regenerated from the compiled "
        "packages into Hy.Gen.App and proved equal to the model's tables; utf8 decoding, strings.TrimSpace/ToLower are modelled",
        "the YAML/viper decoding of `bandwidth.up/down` into Go strings is not modelled (the fields are strings; ConvBandwidth's int arm is "
        "unreachable from a file)",
        "StringToBps is modelled as it is: number x unit is a uint64 product (modulo 2^64). That an absurdly large configured value is "
        "read as a smaller one (stringToBps_wraps_counterexample) is noticed, not claimed: C10 bounds the rate by the limit the program holds",
    ],
    "assumptions": [
        "rates are uint64 (theorems carry n <= 2^64-1 where the width matters)",
        "NOT claimed: bytes per wall-clock interval on the wire (a timing measurement, not a theorem)",
        "one auth request per connection decides the controller (a repeated /auth on an authenticated connection only repeats the response)",
    ],
}

MANIFEST = {
    "text": "Proof: Lean theorems over an executable model of the Hysteria-CC-RX codec (FormatUint, ParseUint with the error dropped: "
            "syntax -> 0, range -> 2^64-1, 'auto') and of the two rate rules (server.go ServeHTTP, client.go connect): server_spec / client_spec "
            "(fixed rate = smaller of own limit and peer's declaration with 0 = unknown for the client's declaration, unlimited for the "
            "server's and for the server's own limit), brutal_le_both, cc_iff, reported_is_installed, header_roundtrip for every uint64, "
            "caps under ANY header bytes, and agreement of both sides with PROTOCOL.md through the wire codec. Tied to the current source by "
            "a 20k-case codec differential and by real loopback handshakes (sampled grid quick / full 5184-point grid thorough, raw HTTP/3 "
            "peers with hand-crafted headers) observing authenticator tx, Connect(tx), HandshakeInfo.Tx and the controller actually installed "
            "on each quic.Conn via an instrumented copy of congestion/utils.go regenerated from the working tree on every run. "
            "The limits themselves are traced back to the configuration files: stringToBps_spec (StringToBps accepts exactly "
            "blanks* digits+ blanks* unit blanks*; value = digits x unit / 8 exactly under digits x unit < 2^64, a uint64 product otherwise), "
            "config_to_limits (core limits = parsed strings; server refuses 0 < limit < 65536, client does not) and "
            "configured_rate_never_exceeded (end to end), tied by a differential on the real StringToBps / fillBandwidthConfig / core fill.",
    "note": "Trusted: Lean kernel (+leanchecker), standard axioms at most; the Go harness, the go/ast rewriter and hydrv; quic-go http3 header "
            "transport; enforced rate := bps of the installed Brutal sender (pacing is C11). Bytes per wall-clock interval are NOT claimed. "
            "Residual risk: implementation differs from the model on a configuration/header the generators did not draw.",
    "technique": "Lean 4 proof (case lattice + decimal codec round trip by induction) with differential correspondence on real handshakes",
}
