CFG = {
    "props_module": "Hy.Props.C15",
    "gen_modules": ["extras"],
    "level": "proof",
    "race": True,
    "streams": [
        {"mod": "extras", "component": "stats", "driver": "stats", "reset_re": "^reset",
         "n": {"quick": 24000, "thorough": 600000}},
        {"mod": "extras", "component": "statsconc", "driver": "stats",
         "n": {"quick": 24, "thorough": 240}},
        {"mod": "extras", "component": "statslive", "driver": "stats",
         "n": {"quick": 9, "thorough": 36}},
    ],
    "rule": "stats: histories of 8-70 operations on a fresh server (random secret): direct LogTraffic/LogOnlineState calls and "
            "requests through the real http.Handler (recorder; 1 in 6 well-formed ones over a real TCP httptest.Server) - GET /traffic "
            "with 28 spellings of the clear parameter, POST /kick with well-formed, empty, null, malformed and trailing-garbage bodies, "
            "GET /online, wrong methods/paths, with the right, a wrong and no Authorization header; amounts include 0 and values around "
            "2^32, 2^63 and 2^64-1 (uint64 wrap); ids include the empty string, non-ASCII, quotes and 300-byte ids; offline without "
            "online included. Outcome = status + JSON parsed and key-sorted. distinct = distinct op line; non-trivial = a direct call, or "
            "a request answered 200 with data or effect. statsconc: one case = one concurrent run (3-10 reporters x 400-2500 reports, "
            "1-4 pollers half of them clearing, 0-4 kickers, or connections going online/offline around a barrier), modes mix / noclear "
            "/ storm / census / mixnet (real TCP server). statslive: one case = a real core/server (TrafficLogger = the real stats server) "
            "with 2-6 real core/client clients over loopback UDP plus one rejected auth, one raw HTTP/3 connection sending 2-3 auth requests "
            "at once while the authenticator blocks (then one more), a kicked single-connection user whose next report is an upstream UDP datagram / a downstream UDP reply / a TCP chunk "
            "client->target / a TCP chunk target->client (refused once, not counted, connection closed by the server, listing drops and stays, "
            "reconnect accepted and accounted exactly); ended by client Close / server Close / kick + refused "
            "relay chunk / silent client (4 s idle timeout, one of them silent while a slow authenticator is still deciding); GET /online must "
            "equal the connected authenticated clients at every quiescent point.",
    "trusted_base": [
        "each operation of Hy.Model.Stats is atomic in the implementation: supported by facts recomputed from http.go's AST on every "
        "run (snapshot+reset of getTraffic(clear) in one Lock..Unlock region; LogTraffic, LogOnlineState, getOnline = Lock;defer Unlock "
        "over the whole body; kick's loop in one region; no map access without the mutex) and by the concurrent runs under -race (thorough); "
        "sync.RWMutex semantics themselves are trusted",
        "encoding/json (Marshal of the maps, Decoder.Decode of the kick body), net/url (Query().Get) and net/http routing to ServeHTTP "
        "are inputs of the model: the harness decodes the same bytes with the same library functions and passes the result on the op line",
        "server_pairs_notifications / server_online_census are theorems about Hy.Stats.Server, an abstract life cycle of core/server/server.go's "
        "handleClient + h3sHandler.ServeHTTP; it assumes quic-go's contract that http3.Server.ServeQUICConn returns only after all handlers have "
        "returned, and that only those two call sites call LogOnlineState. It is tied to the code only by the loopback runs of stream "
        "statslive (concurrent auth requests on one connection, client close, server close, kick, idle timeout, slow authenticator with "
        "the client gone first) - a handful of schedules, wall-clock deadlines (3-9 s) decide 'eventually' - and by two facts recomputed "
        "from core/server's AST: test/Authenticate/commit/LogOnlineState(true) sit in one authMutex region of ServeHTTP (atomicity of the "
        "model's authReq step), LogOnlineState has exactly the two call sites the model has, and every LogTraffic call site of core/server either closes the "
        "connection on refusal or hands the verdict to the relay, which is given tcpTrafficLogger (closes)",
        "OnlineMap values are Go int (64-bit): more than 2^63 simultaneous connections of one id are not modelled",
    ],
    "assumptions": [
        "a history is the order in which the mutex admitted the critical sections; callers are arbitrary",
        "conservation is exact while a user's allowed total stays below 2^64 and holds modulo 2^64 beyond (uint64 counters, as in the code)",
        "a refused report is the return value false; that the server then disconnects the client is C06's clause (D11)",
        "the exact census clause is stated for notification sequences in which every offline follows its own online (what the server produces); "
        "for arbitrary sequences the count is the floored running balance and is still never <= 0",
    ],
}

MANIFEST = {
    "text": "Proof: Lean theorems over an executable model of the traffic stats server (LogTraffic, LogOnlineState, ServeHTTP -> "
            "getTraffic/kick/getOnline, uint64 wrap included) for EVERY history of its critical sections, i.e. every interleaving of "
            "reporters, pollers, kickers and connections: per id, cleared snapshots + final snapshot = bytes reported as allowed (exactly "
            "below 2^64, modulo 2^64 beyond); any snapshot is the prefix sum not yet cleared; a report is refused iff a kick of that id is "
            "outstanding, the refusal consumes it and is not counted (refusals + outstanding = effective kicks <= kick requests, = when kicks "
            "do not overlap); an online entry is never <= 0 and equals #online - #offline for paired notifications; a request without the "
            "secret changes and learns nothing; and, over an abstract connection life cycle of core/server, each connection sends online once "
            "per first accepted auth and offline once after its handler returns, so the listing equals the number of live authenticated "
            "connections. Tied to the source by go/ast lock-region facts regenerated on every run, a 24k-operation (quick) sequential "
            "differential through the real http.Handler, concurrent runs checked against the order-independent consequences "
            "(-race in the thorough tier), and real server + clients over loopback for the online census.",
    "note": "Trusted: Lean kernel (+leanchecker), axioms propext/Quot.sound/Classical.choice at most; the Go harness and hydrv; sync.RWMutex; "
            "encoding/json, net/url, net/http as inputs. The server-side pairing theorems are about an abstract life cycle (quic-go handler-wait "
            "contract assumed), tied to core/server only by a few loopback schedules (client close, server close, kick, idle timeout, slow auth "
            "after the client has gone). "
            "The clause 'a refused report disconnects the client' is checked by C06 (D11), not here.",
    "technique": "Lean 4 proof (invariants over all operation sequences; trace-level conservation with ghost-free sums) with AST lock-region facts, "
                 "differential correspondence and concurrent consequence checks",
}
