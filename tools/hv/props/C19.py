from .. import common as C


def gen_trans_hop():
    # Lean definitions of HopIntervalConfig.normalized and udpHopPacketConn.nextHopInterval TRANSLATED from the current
    # source of extras/transport/udphop/conn.go (Hy/Gen/TransHop.lean; a non-nil error is `Res.reject`, rand.Int63n is a
    # function parameter); Props/C19.lean proves them equal to Hop.normalized / Hop.nextHopInterval
    # (normalized_translation_eq, nextHopInterval_translation_eq)
    H = "extras/transport/udphop/conn.go:"
    C.gen_translate("Hop", [H + "HopIntervalConfig.normalized", H + "udpHopPacketConn.nextHopInterval"],
                    externs={"rand.Int63n": "int64:int64"})


CFG = {
    "props_module": "Hy.Props.C19",
    "gen_modules": ["extras"],
    "gen_hooks": [gen_trans_hop],
    "level": "proof",
    "streams": [
        {"mod": "extras", "component": "portunion", "driver": "portunion",
         "n": {"quick": 6000, "thorough": 40000}},
        {"mod": "extras", "component": "hopaddr", "driver": "hopaddr",
         "n": {"quick": 5000, "thorough": 40000}},
        {"kind": "gotest", "mod": "extras", "pkg": "./transport/udphop", "run": "^TestVerifC19Hop$",
         "component": "hop", "driver": "hop", "reset_re": "^reset", "timeout": 1500,
         "n": {"quick": 6000, "thorough": 40000}},
    ],
    "race": True,
    "rule": "portunion: expression strings built from items n / a-b over boundary ports (0, 1, 65534, 65535, ...), a 40-port window "
            "(so ranges touch, overlap, nest and are adjacent), reversed bounds, leading zeros, chains of adjacent ranges in shuffled "
            "order, then mutated (stray/double separators, spaces, bad numbers 65536.., signs, underscores, non-ASCII, 3-part ranges, "
            "wildcards mixed in) plus Normalize on hand-built unsorted unions; distinct = distinct op line; non-trivial = the parser "
            "accepted. hopaddr: address strings host:expr over IPv4 literals, bracketed IPv6 (zone, v4-mapped), empty host, and "
            "malformed hosts (unbracketed IPv6, missing/extra/misplaced brackets, spaces, non-literals that fail fast), port "
            "expressions valid and invalid (empty, trailing/leading commas, spaces, second colon, 65536), missing port, one-byte "
            "insert/delete/replace mutations with ':[], -%'; non-trivial = the string splits as host:port. hop: histories reset;(tick ok|err, write, recv on current/previous/closed/unknown socket, read timeouts, "
            "flood to the 1024 queue limit, read with various buffer sizes, Set*Deadline/Set*Buffer, LocalAddr, Close, hop racing "
            "Close, Close issued while hop is inside ListenUDPFunc, reads/writes/ticks after Close) drawn from the PRNG over 12 port expressions and valid/invalid interval "
            "configurations with listen failures injected; non-trivial = the operation was enabled (not idle / no connection)",
    "trusted_base": [
        "strconv.ParseUint(s,10,16), strings.Split/Contains on one-byte separators, sort.Slice (modelled; any correct sort gives "
        "the same result because ties are identical ranges) — tied by the differential stream `portunion` and checked model-free "
        "against an independent bitmap parser over all 65536 ports",
        "math/rand.Intn(n) returns 0 <= r < n; rand.Int63n likewise (hypothesis SchedOK / r-range of the theorems)",
        "Go channel and select semantics: buffered FIFO channel, select picks any ready case (the pick is an input of the model), "
        "a closed channel is always ready; sync.RWMutex regions are atomic steps",
        "net.PacketConn contract of the sockets returned by ListenUDPFunc: Close makes a blocked ReadFrom return a non-timeout error "
        "(so the socket's recvLoop ends), an OPEN socket's ReadFrom fails only with timeouts, operations on a closed socket fail",
        "net.ResolveIPAddr(\"ip\", host) and net.IP.String() are parameters of the address model (their results are recorded by "
        "the harness and passed on the model-op line); net.SplitHostPort and net.JoinHostPort ARE modelled (Hy.Model.HopAddr) and "
        "tied by the differential stream `hopaddr`; ResolveUDPHopAddr takes no resolver argument, so only literal IPs (and names "
        "that fail fast) are generated — name resolution itself is outside the check",
        "the model Hy.Model.Hop is tied to extras/transport/udphop/conn.go by the synctest stream `hop` (real udpHopPacketConn, fake "
        "ListenUDPFunc, virtual clock) and by the constants packetQueueSize / udpBufferSize / defaultHopInterval regenerated from "
        "the compiled package",
    ],
    "assumptions": [
        "a Go string is modelled as the list of its bytes (byte b = Char.ofNat b)",
        "atomic steps: hop(), WriteTo, Close, each Set* method (mutex regions); one recvLoop iteration; ReadFrom = closeChan test "
        "followed by the select. For hop/Close/WriteTo the atomicity is tied to the source on every run: go/ast facts "
        "(harness/extras/verifh/c19_facts.go -> Hy.Gen.udphop{Hop,Close,WriteTo}*) state that the closed test, the "
        "ListenUDPFunc() call, prevConn.Close() and the socket swap of hop sit in ONE connMutex.Lock region (likewise Close, "
        "WriteTo), decided by the kernel in hop_is_one_write_locked_region / close_is_one_write_locked_region / "
        "writeTo_is_one_locked_region; and exercised by the `closeinlisten` stimulus (Close() issued from inside ListenUDPFunc)",
        "a recvLoop blocked while pushing a timeout error into a FULL queue is not modelled (that label is disabled)",
        "the hop model is of the code with fixes/D10.patch applied (ReadFrom tests closeChan before selecting)",
        "reads that were already parked in ReadFrom's select when Close ran may still return a queued packet (they were issued "
        "before Close returned); close_all excludes them explicitly (hypothesis atSelect = false at Close)",
    ],
}

MANIFEST = {
    "text": "Proof: Lean theorems over executable models of ParsePortUnion/Normalize/Ports/Contains (on the expression string itself) and "
            "of udpHopPacketConn as a labelled transition system whose schedules are ALL lists of steps (timer hops with successful or "
            "failing listen, writes, packets/timeouts on any socket, the two halves of ReadFrom with Go's select outcome as an input, "
            "Set*Deadline/Buffer, Close): a parsed expression contains exactly the union of the listed ports/ranges (and nil iff "
            "malformed), the result is sorted/disjoint/non-adjacent, Ports() enumerates the set strictly increasing incl. 65535; every "
            "WriteTo goes out on the newest open socket to (server IP, port of the set) where ResolveUDPHopAddr (SplitHostPort rules, "
            "resolver as a parameter, port-expression parse) accepted the address iff it splits, resolves and parses, and addrs() is "
            "[(ip,p) | p in Ports]; open sockets are within {current, previous}, at most two, a "
            "failed listen changes nothing; packets on the previous socket are queued and read in order until the next hop; after Close "
            "every socket ever opened is closed, hops are no-ops, writes and newly issued reads fail; hop-interval normalisation and "
            "jitter bounds. Tied to the source by regenerated constants, a 6k-case differential on expression strings with a model-free "
            "65536-port bitmap oracle, a 5k-case differential on address strings against the real ResolveUDPHopAddr/addrs()/String(), and a synctest trace check of the real connection (fake sockets, virtual timers, failure "
            "injection) against `hydrv hop` plus a model-free census oracle.",
    "note": "Trusted: Lean kernel (+leanchecker), axioms propext/Quot.sound/Classical.choice at most; the Go harness and hydrv; Go channel/"
            "select/mutex semantics and rand.Intn's range as stated. D10 (ReadFrom after Close returns a queued packet) is repaired by "
            "fixes/D10.patch; the model is of the repaired code and d10_pinned_counterexample keeps the pinned behaviour's witness.",
    "technique": "Lean 4 proof (parser soundness/completeness against a declarative grammar, merge-loop invariant, all-schedules "
                 "census invariant) with differential + trace correspondence under testing/synctest",
}
