from .. import common as C


def gen_trans_gecko():
    # Lean definition of geckoPacketConn.randomPadLen TRANSLATED from the current source (Hy/Gen/TransGecko.lean;
    # randIntn, which reads crypto/rand, is a function parameter); Props/C14.lean proves it equal to
    # Gecko.randomPadLen / Gecko.padDrawBound for every configuration, chunk length and draw (randomPadLen_translation_eq)
    C.gen_translate("Gecko", ["extras/obfs/gecko.go:geckoPacketConn.randomPadLen"], externs={"randIntn": "int:int"})


CFG = {
    "props_module": "Hy.Props.C14",
    "gen_modules": ["extras"],
    "gen_hooks": [gen_trans_gecko],
    "level": "proof",
    "streams": [
        # in-package test harness (package obfs) inside a testing/synctest bubble: virtual time, the real
        # gcLoop ticker, direct reads of g.reassembly / g.perSource after every op
        {"kind": "gotest", "mod": "extras", "pkg": "./obfs", "run": "^TestVerifGecko$", "component": "gecko",
         "driver": "gecko", "reset_re": "^reset", "n": {"quick": 6000, "thorough": 300000}, "timeout": 3000},
    ],
    "rule": "histories (each starts with `reset <minPkt> <maxPkt>`) against ONE real receiver conn and real sender conns: "
            "mix = 1..5 sources x 1..10 crafted messages (2..8 chunks, any split, any pad, reserved header bits set) "
            "permuted / reversed / locally swapped, with duplicates, lost chunks, junk frames (short, bad count, bad index, "
            "pad past the end, truncated) and short-header packets interleaved, 1..4 datagrams per ReadFrom round, small "
            "caller buffers, clock steps; reuse = two messages under one (source,id) with equal / different chunk count, "
            "interleaved, or separated by the TTL; percap = >8 messages of one source with completion, re-opening, expiry; "
            "ttl = gcExpired probed at deadline-1 / deadline / deadline+1 and the ticker at 4 s +- 1 ns; writer = the real "
            "WriteTo for packet sizes 1..1500 (boundaries of the size range, short header, empty) in 11 configurations, its "
            "frames then delivered permuted with duplicates; global = 4128..4288 pending messages from 516..536 sources "
            "(oldest-eviction with ties), completion, gc, refill; wrap = 300+ packets from one real sender (8-bit id wraps) "
            "with some left incomplete; codec = decodeFrame / encodeFrame on any header and buffer size, config validation, "
            "end-to-end through the real Gecko-over-Salamander stack. distinct = distinct op line; non-trivial = a packet was "
            "reassembled, a message is pending for the touched source, time advanced, or the writer fragmented",
    "trusted_base": [
        "the inner (Salamander) conn is a parameter of the model: identity on payloads, + smSaltLen bytes on the wire, hands up "
        "at most geckoBufferSize bytes (the `e2e` op runs the real stack and checks sizes and round trip model-free; C13 covers Salamander)",
        "a source is addr.String(); distinct sources have distinct strings (harness addresses: src-<n>)",
        "atomicity: acceptChunk / gcExpired run under g.mu, ReadFrom under g.readMu; one event of the model = one such region",
        "the Go ticker under testing/synctest delivers every tick of gcLoop in order (period TTL/2, first tick TTL/2 after creation)",
        "the model Hy.Model.Gecko is tied to extras/obfs/gecko*.go by the differential stream `gecko` (ReadFrom results, "
        "len(reassembly), len(perSource), perSource[src], every entry of the touched source incl. deadline, a hash of both maps after "
        "every op, full dumps; writer frames byte for byte) and by all gecko* constants + smSaltLen regenerated from the compiled package",
    ],
    "assumptions": [
        "chunk count, message id, pad draws and pad bytes, and the eviction victim among equally old entries are inputs of the "
        "model; the harness recovers them from the implementation's output/state and passes them on the model-op line",
        "reassembly_exact hypotheses: nothing pending under the key and source below its cap at the first chunk; no other chunk "
        "under the key in the interval (8-bit id not reused: D9); no gc past the deadline; the global cap does not evict the "
        "message (implied by: table size + events in the interval <= 4096); caller buffers hold the packet",
        "time is the virtual clock of the synctest bubble, in ns since the receiver conn was created",
    ],
}

MANIFEST = {
    "text": "Proof: 42 Lean theorems over an executable model of extras/obfs/gecko.go + gecko_frame.go (writer, frame codec through a "
            "panic-explicit Res monad, reassembly table + perSource, gcExpired, evictOldest, the gcLoop ticker). For EVERY list of "
            "events (datagrams of any bytes from any sources, gc runs) from the empty table: perSource[s] = |{k in table : k.src = s}|, "
            "|table| <= 4096, perSource <= 8 (census, caps); no index/slice panics for every byte string and every receiver state; "
            "an incomplete message is removed by the first gc past arrival+TTL, nothing extends its deadline, and with the TTL/2 ticker "
            "nothing outlives deadline+TTL/2; every reassembled packet is the in-order concatenation of chunks that arrived under ONE "
            "(source,id,count) key (integrity); under the explicit no-id-reuse hypotheses a message whose chunks all arrive, in any "
            "order with duplicates and any interleaving, is delivered byte-identical and nothing else is delivered under its key "
            "(reassembly_exact), instantiated for the frames the writer emits for any chunk count 2..8, id and in-range pad "
            "(written_frames_are_chunks); randomPadLen keeps salt+header+pad+chunk in [minPkt,maxPkt] whenever the chunk fits, with no "
            "uint16 loss; encode/decode round trip; short-header packets pass unchanged both ways. The model is tied to the source on "
            "every run by regenerated constants and a 6k-op (quick) differential in a synctest bubble on the real receiver "
            "(> 4096 pending messages, id wraparound through the real writer included). Known finding D9: with an 8-bit id reused while "
            "the earlier message is pending the receiver splices two messages (decide-checked witness; replay in corpus/C14).",
    "note": "Trusted: Lean kernel (+leanchecker), axioms propext/Quot.sound/Classical.choice at most; the Go harness and hydrv driver; "
            "Salamander as identity (+8 bytes); lock regions as atomic steps; synctest's ticker. Residual risk = the implementation "
            "differs from the model on a history the generator did not draw. D9 is reported as KNOWN-FINDING, any other integrity "
            "violation fails the check.",
    "technique": "Lean 4 proof (invariants over all event lists, provenance-parametric well-formedness, liveness induction) with "
                 "differential correspondence under virtual time",
}
