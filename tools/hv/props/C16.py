CFG = {
    "props_module": "Hy.Props.C16",
    "gen_modules": ["core", "app"],
    "level": "proof",
    "race": True,
    "streams": [
        {"mod": "core", "component": "reconnect", "driver": "reconnect", "timeout": 3000,
         "n": {"quick": 160, "thorough": 3000}},
        {"mod": "app", "component": "c16cfg", "driver": "reconnect", "n": {"quick": 60, "thorough": 1000}},
    ],
    "rule": "one case = one whole history run on the REAL client.NewReconnectableClient against a real loopback hysteria "
            "server: sequential histories (3 in 4; lazy/eager start incl. failing eager starts, TCP / refused-TCP / UDP calls, "
            "a fill that saturates the server's stream limit (MaxIncomingStreams=8), kills = the server closes that client's "
            "connection, failing reconnects: configFunc error, invalid config, ConnFactory.New error, auth rejected, TLS failure, "
            "server down (thorough only), Close at any point and calls after it) are compared op by op with `hydrv reconnect` "
            "(result class, configFunc calls, connectedFunc count arguments, set of open factory sockets, sockets obtained so far); "
            "concurrent histories (1 in 4; 2-4 goroutines, kills and Close at arbitrary times, scripted failing attempts, "
            "fast-open on/off; -race in the thorough tier) are checked by the model-free oracle only. distinct = distinct op line; "
            "non-trivial = at least one successful connect happened. Failing reconnects are injected at EACH stage of connect(): "
            "ConnFactory.New error, handshake error (TLS) and handshake timeout (server down: one corpus history in quick, more in thorough), "
            "RoundTrip error (the server drops the connection while answering the auth request), non-233 status (authenticator rejects); "
            "after every op the census shows, per factory socket, how often its packet conn and its quic.Transport were closed and whether "
            "the server saw the QUIC connection closed by the client. Stream c16cfg: the application's real (*clientConfig).Config is evaluated "
            "repeatedly while an in-process DNS server changes its answer (plain and port-hopping server strings)",
    "trusted_base": [
        "quic-go reports connection loss / stream limit as errors (contract: OpenStream at the limit returns "
        "*quic.StreamLimitReachedError; any error after CONNECTION_CLOSE is not that) and clientImpl.Close closes conn, "
        "transport and packet conn — exercised by every history through the socket census, not proved",
        "atomicity: each rc.m lock region of clientDo / Close is one step of the model; connectedFunc/configFunc run under "
        "rc.m (they do in the source; regenerated go/ast facts pin which methods assign rc.client); supported by -race in the thorough tier",
        "the model Hy.Model.Reconnect (repaired clientDo) is tied to core/client/reconnect.go + client.go by the differential "
        "stream `reconnect` and by facts regenerated on every run from the source (go/ast: assigners of rc.client, drop path closes, "
        "reconnect closes old, Close sets closed+closes, count++ only on the success path) and from the compiled "
        "wrapIfConnectionClosed (stream limit passes unwrapped, other errors become ClosedError)",
        "connect()/Close as programs over (packet conn, transport, QUIC conn): tied by a go/ast fact table regenerated every run (for "
        "each `return` of connect(): error kind + Close calls on its path; clientImpl.Close's calls and order; NewClient returns nil on error) "
        "whose expected value is what a run of the model Hy.Connect closes on that exit, and by the per-socket census in the differential; "
        "quic.Transport.Close is observed as the SetReadDeadline(now) it performs on a packet conn it did not create (quic-go contract), "
        "the client's conn.CloseWithError as a remote application error on the server-side connection",
        "app/cmd/client.go: NewReconnectableClient gets the method value config.Config, Config() allocates a fresh client.Config and "
        "fillServerAddr resolves on every call and stores nothing (go/ast facts) + stream c16cfg (fake DNS through net.DefaultResolver); "
        "NOT covered: the realm branch of Config() (needs a realm HTTP server + STUN), DNS caching outside the process",
        "the loopback server (real core/server with an accept-loop shim that exposes the server-side connection for kills) and the "
        "census wrapper around net.UDPConn are the environment, not the code under test",
    ],
    "assumptions": [
        "what f(client) returns is an unconstrained input of the model (ok / ClosedError / stream limit / other at any time); "
        "the sequential differential uses the settled environment: after a kill the harness waits until the client has seen the CONNECTION_CLOSE",
        "connectedFunc and configFunc do not call back into the reconnecting client (they run under its mutex)",
        "sockets are identified by the order in which ConnFactory.New returned them",
    ],
}

MANIFEST = {
    "text": "Proof: Lean theorems over an executable model of reconnectableClientImpl (lock regions of clientDo/Close as atomic steps, "
            "any number of goroutines, kills, failing configFunc/verifyAndFill/ConnFactory.New/handshake, lazy/eager start, any answer "
            "of the inner client at any time), for EVERY schedule (List Label): one_live at every reachable state (at most one factory "
            "socket open, it is the current client's, every other socket the factory ever returned is closed), close_final (after Close "
            "nothing is open at any later state, no configFunc/connectedFunc/factory call, every later call returns ClosedError in one "
            "step), reconnect_on_loss (ClosedError on the current client closes and drops it; the next call evaluates configFunc once, "
            "takes a fresh socket, count+1 → connectedFunc), recoverable_no_reconnect, failed_reconnect_leaks_nothing, count_exact "
            "(connectedFunc saw exactly 1..count; count moves only on a successful attempt), plus decide-checked witnesses that the "
            "pinned clientDo leaks (2 sockets open after [connect, kill, call, call]). Tied to the source on every run by go/ast facts, "
            "the compiled error classification, and a differential of whole fault histories on the real client against a real loopback "
            "server with a socket census (sequential: exact; concurrent: model-free oracle).",
    "note": "Trusted: Lean kernel (+leanchecker), axioms propext/Quot.sound/Classical.choice at most; the Go harness (census wrapper, "
            "server accept-loop shim, settle-after-kill) and hydrv; quic-go's error contract; lock regions = atomic steps (supported by -race). "
            "Residual risk: the implementation differs from the model on a history the generator did not draw.",
    "technique": "Lean 4 proof (inductive invariant over all schedules / fault histories) with differential correspondence on real sockets",
}
