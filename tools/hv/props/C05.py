"""C05 — UDP fragmentation is all-or-nothing and size-bounded."""
import os
import re

from .. import common as C


def _func_body(src, header):
    """Text between the braces of the function whose header starts with `header`, comments
    removed, whitespace collapsed."""
    i = src.find(header)
    if i < 0:
        return "<missing: %s>" % header
    j = src.index("{", i + len(header))
    depth, k = 0, j
    while True:
        ch = src[k]
        if ch == "{":
            depth += 1
        elif ch == "}":
            depth -= 1
            if depth == 0:
                break
        k += 1
    body = re.sub(r"//[^\n]*", "", src[j + 1:k])
    return " ".join(body.split())


def gen_send_shape():
    """The two udpIOImpl.SendMessage bodies (what sits between the send paths and quic.Conn.SendDatagram;
    a real *quic.Conn cannot be faked, so the harness re-implements these few lines and this fact pins them)
    -> lean/Hy/Gen/C05Shape.lean.  The caller holds the "lean" lock."""
    def lean_str(t):
        return '"' + t.replace("\\", "\\\\").replace('"', '\\"') + '"'
    lines = ["/- REGENERATED from /repo/core/{client/client.go,server/server.go} on every run (tools/hv/props/C05.py). Do not edit. -/",
             "namespace Hy.Gen.C05Shape"]
    for name, rel in (("clientSendMessage", "core/client/client.go"), ("serverSendMessage", "core/server/server.go")):
        src = open(os.path.join(C.REPO, rel)).read()
        lines.append("def %s : String := %s" % (name, lean_str(_func_body(src, "func (io *udpIOImpl) SendMessage("))))
    lines.append("end Hy.Gen.C05Shape")
    C.write_gen_file("C05Shape", "\n".join(lines) + "\n")


def gen_trans_udpsize():
    # Lean definitions of UDPMessage.HeaderSize / Size TRANSLATED from the current source
    # (Hy/Gen/TransUDPSize.lean; quicvarint.Len is a function parameter); Props/C05.lean proves them
    # equal to Frag.headerSize / Frag.size for every message (headerSize_translation_eq, size_translation_eq)
    C.gen_translate("UDPSize", ["core/internal/protocol/proxy.go:UDPMessage.HeaderSize",
                                "core/internal/protocol/proxy.go:UDPMessage.Size"],
                    externs={"quicvarint.Len": "uint64:int"})


CFG = {
    "props_module": "Hy.Props.C05",
    "gen_modules": ["core"],
    "gen_hooks": [gen_send_shape, gen_trans_udpsize],
    "level": "proof",
    "streams": [
        # stateless: Serialize / ParseUDPMessage / FragUDPMessage
        {"mod": "core", "component": "frag", "driver": "frag", "n": {"quick": 7000, "thorough": 150000}},
        # the real send paths (server receiveLoop -> sendMessageAutoFrag, client NewUDP -> udpConn.Send) over a scripted transport
        {"mod": "core", "component": "autofrag", "driver": "frag", "n": {"quick": 8000, "thorough": 200000}},
        # stateful: the real Defragger driven by fragment histories of up to 6 concurrent messages
        {"mod": "core", "component": "defrag", "driver": "defrag", "reset_re": "^reset",
         "n": {"quick": 40000, "thorough": 1500000}},
        # exhaustive: every arrival order of n fragments with one duplicate, n = 2..N
        # (fresh defragger and one holding another message); here `n` is N, not a case count
        {"mod": "core", "component": "defragx", "driver": "defrag", "reset_re": "^reset",
         "n": {"quick": 5, "thorough": 6}},
    ],
    "rule": "frag: messages with payload 1..65535 and address 1..2048 (boundary lengths and uniform), limits drawn per category "
            "(0..1500 uniform; at/below the header size incl. 0 and negative; the 253..257/300/512-fragment boundary; fits-whole +-2; "
            "1-2 payload bytes per fragment; k equal parts), Serialize into short/exact/long buffers, Serialize+Parse, and "
            "ParseUDPMessage on datagrams built from the field structure and damaged at field boundaries (truncation at every "
            "header offset, address length 0 / 2049.. / longer than the rest / equal to the rest, non-minimal varints, bit flips, random). "
            "autofrag: both send paths, payload 1..300 / ..4096-hdr / around the 4096-byte buffer / oversize (client up to 65535), "
            "address 1..2048, transport limit uniform 20..1500 / around the header size / at the 254..257-fragment boundary / 2..8 parts / "
            "fits-whole+-1, honest transport (too-large iff longer than the limit) or one that refuses the whole datagram regardless, "
            "SendDatagram failure at call 0/1/2/3/5/17/100/254/255, server logger refusal at call 0..3. "
            "autofrag sessions: ONE real receiveLoop / ONE real udpConn relaying 4..8 packets (60% with the same fragment count 2..6, "
            "others with another count, fitting whole, or another address), optional SendDatagram failure at one call; oracles on the whole "
            "session: first datagram of every packet is the whole message with packet id 0, k>=4 fragmented packets never all carry one id, "
            "everything that left fed in order to ONE real Defragger yields exactly the completely sent payloads, and under tail/head loss of "
            "adjacent packets and pseudo-random loss/reorder/duplication only payloads that were sent. "
            "defrag: histories = reset; 1..6 messages with distinct packet ids split by the real splitter (1, 2..6, 7..40, 254/255 "
            "fragments, >255 = discarded); fragments fed in one-message-any-order-with-duplicates, message-after-message, interleaved "
            "with drops and duplicates, or mixed with raw malformed/colliding fragments. defragx: exhaustive arrival orders. "
            "distinct = distinct op line; non-trivial = the message did not fit whole / the datagram has at least a full header / "
            "the fed fragment belongs to a fragmented message",
    "trusted_base": [
        "the model Hy.Model.Frag is tied to core/internal/protocol/proxy.go and core/internal/frag/frag.go by three differential "
        "streams (frag: result list with per-fragment id/count/size/digest of the serialized bytes; defrag/defragx: returned message "
        "and the Defragger's pktID/len(frags)/count/size after every Feed) and by the regenerated constant MaxMessageLength",
        "quicvarint.Read/Len and binary.Read on a bytes.Buffer (modelled: any-width varint decode, short buffer = error)",
        "the send paths (server receiveLoop -> sendMessageAutoFrag, client udpSessionManager.NewUDP -> udpConn.Send) are MODELLED "
        "(Hy.Model.AutoFrag) and tied by the differential stream `autofrag`, which runs the real functions over a scripted "
        "udpIO.SendMessage; the two udpIOImpl.SendMessage bodies (8 lines between the paths and quic.Conn.SendDatagram, a real "
        "*quic.Conn cannot be faked) are re-implemented in the harness and pinned by the regenerated source fact Hy.Gen.C05Shape",
        "math/rand.Intn(0xFFFF) returns a value in [0, 0xFFFF) (the draw is an input of the model, recovered from the first fragment); "
        "each Defragger is fed, and each send path run, by a single goroutine (read from the code, not proved)",
        "quic-go hands every received datagram in a buffer it does not reuse (fragments alias it until reassembly)",
    ],
    "assumptions": [
        "the datagram limit is a Go int (modelled as Int: zero and negative included); lengths are < 2^62",
        "after an emission the slot that aliases the emitted *UDPMessage is never read again (the table is full), so the model "
        "keeps the fragment as it arrived",
        "no_mixing assumes pairwise distinct packet ids among the fragmented messages in flight (the property's hypothesis; the "
        "senders draw a fresh random 16-bit id per fragmented message)",
    ],
}

MANIFEST = {
    "text": "Proof: Lean theorems over an executable model of UDPMessage.Serialize/ParseUDPMessage, FragUDPMessage (with the uint8 "
            "fragment index and the repaired int count) and Defragger.Feed (8-bit count, size, nil-slot panic explicit): for EVERY "
            "message, address, payload and limit (Int) the splitter returns nil, the message whole, or 2..255 non-empty fragments that "
            "each fit the limit, are numbered 0..n-1 and concatenate to the payload, and it discards exactly when the limit leaves no "
            "room or >255 fragments are needed; for EVERY arrival order with duplicates of a fragment set the defragger emits the "
            "original exactly once, at the step the last distinct fragment arrives; for EVERY finite sequence drawn from messages with "
            "distinct packet ids (drops, duplicates, permutations, interleaving) everything emitted is one of the originals; "
            "Serialize/Parse round trip; parse/frag/feed never panic on any input or history. The two send paths (whole attempt, "
            "DatagramTooLargeError(L) -> packet id uint16(draw)+1 in 1..65535 -> split -> send in order, stop at the first error; Serialize into "
            "the 4096-byte buffer with -1 = silent drop) are modelled with logger/transport/draw as inputs: everything handed to SendDatagram "
            "after the whole attempt is <= L and is a prefix of one fragment set with a common non-zero id; a message over 4096 bytes or "
            "needing >255 fragments is not sent at all; what leaves, parsed and fed in any order with duplicates to a fresh Defragger, yields "
            "exactly the original; after a mid-set failure only a proper prefix has left and the receiver emits nothing. Sessions (several packets "
            "through one receiveLoop / udpConn) are explicit: each packet's result is a function of its own message, draw and answers only "
            "(fresh id per packet), and for pairwise distinct draws any loss/reorder/duplication of a session's datagrams yields only payloads "
            "of single packets of the session. The pinned tree's uint8 count wrap "
            "(defect D1) is characterised exactly (panics iff >=256 fragments are needed) with decide-checked witnesses. The model is tied "
            "to the source by a differential on >50k cases (quick) incl. exhaustive arrival orders with one duplicate.",
    "note": "Trusted: Lean kernel (+leanchecker), axioms propext/Quot.sound/Classical.choice at most; the Go harness and hydrv driver; "
            "single-goroutine use of each Defragger; residual risk = implementation differs from the model on an input no generator drew.",
    "technique": "Lean 4 proof (loop invariant for the splitter, representation + slot invariants for the reassembler, refinement of "
                 "the panicking Go-level model to a pure one) with differential correspondence and model-free oracles",
}
