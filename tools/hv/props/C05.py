CFG = {
    "props_module": "Hy.Props.C05",
    "gen_modules": ["core"],
    "level": "proof",
    "streams": [
        # stateless: Serialize / ParseUDPMessage / FragUDPMessage
        {"mod": "core", "component": "frag", "driver": "frag", "n": {"quick": 10000, "thorough": 150000}},
        # stateful: the real Defragger driven by fragment histories of up to 6 concurrent messages
        {"mod": "core", "component": "defrag", "driver": "defrag", "reset_re": "^reset",
         "n": {"quick": 40000, "thorough": 1500000}},
        # exhaustive: every arrival order of n fragments with one duplicate, n = 2..N
        # (fresh defragger and one holding another message); here `n` is N, not a case count
        {"mod": "core", "component": "defragx", "driver": "defrag", "reset_re": "^reset",
         "n": {"quick": 5, "thorough": 6}},
    ],
    "rule": "frag: messages with payload 1..65535 and address 1..2048 (boundary lengths and uniform), limits drawn per category "
            "(0..1500 uniform; at/below the header size incl. 0 and negative; the 253..257/300/512-fragment boundary; fits-whole +-2; "
            "1-2 payload bytes per fragment; k equal parts), Serialize into short/exact/long buffers, Serialize+Parse, and "
            "ParseUDPMessage on datagrams built from the field structure and damaged at field boundaries (truncation at every "
            "header offset, address length 0 / 2049.. / longer than the rest / equal to the rest, non-minimal varints, bit flips, random). "
            "defrag: histories = reset; 1..6 messages with distinct packet ids split by the real splitter (1, 2..6, 7..40, 254/255 "
            "fragments, >255 = discarded); fragments fed in one-message-any-order-with-duplicates, message-after-message, interleaved "
            "with drops and duplicates, or mixed with raw malformed/colliding fragments. defragx: exhaustive arrival orders. "
            "distinct = distinct op line; non-trivial = the message did not fit whole / the datagram has at least a full header / "
            "the fed fragment belongs to a fragmented message",
    "trusted_base": [
        "the model Hy.Model.Frag is tied to core/internal/protocol/proxy.go and core/internal/frag/frag.go by three differential "
        "streams (frag: result list with per-fragment id/count/size/digest of the serialized bytes; defrag/defragx: returned message "
        "and the Defragger's pktID/len(frags)/count/size after every Feed) and by the regenerated constant MaxMessageLength",
        "quicvarint.Read/Len and binary.Read on a bytes.Buffer (modelled: any-width varint decode, short buffer = error)",
        "callers (core/server/udp.go, core/client/udp.go sendMessageAutoFrag / udpConn.Send) fragment only a message with FragID 0, "
        "FragCount 1 and pass int(MaxDatagramPayloadSize); each Defragger is fed by a single goroutine (not proved; read from the code)",
        "quic-go hands every received datagram in a buffer it does not reuse (fragments alias it until reassembly)",
    ],
    "assumptions": [
        "the datagram limit is a Go int (modelled as Int: zero and negative included); lengths are < 2^62",
        "after an emission the slot that aliases the emitted *UDPMessage is never read again (the table is full), so the model "
        "keeps the fragment as it arrived",
        "no_mixing assumes pairwise distinct packet ids among the fragmented messages in flight (the property's hypothesis; the "
        "senders draw a fresh random 16-bit id per fragmented message)",
    ],
}

MANIFEST = {
    "text": "Proof: Lean theorems over an executable model of UDPMessage.Serialize/ParseUDPMessage, FragUDPMessage (with the uint8 "
            "fragment index and the repaired int count) and Defragger.Feed (8-bit count, size, nil-slot panic explicit): for EVERY "
            "message, address, payload and limit (Int) the splitter returns nil, the message whole, or 2..255 non-empty fragments that "
            "each fit the limit, are numbered 0..n-1 and concatenate to the payload, and it discards exactly when the limit leaves no "
            "room or >255 fragments are needed; for EVERY arrival order with duplicates of a fragment set the defragger emits the "
            "original exactly once, at the step the last distinct fragment arrives; for EVERY finite sequence drawn from messages with "
            "distinct packet ids (drops, duplicates, permutations, interleaving) everything emitted is one of the originals; "
            "Serialize/Parse round trip; parse/frag/feed never panic on any input or history. The pinned tree's uint8 count wrap "
            "(defect D1) is characterised exactly (panics iff >=256 fragments are needed) with decide-checked witnesses. The model is tied "
            "to the source by a differential on >50k cases (quick) incl. exhaustive arrival orders with one duplicate.",
    "note": "Trusted: Lean kernel (+leanchecker), axioms propext/Quot.sound/Classical.choice at most; the Go harness and hydrv driver; "
            "single-goroutine use of each Defragger; residual risk = implementation differs from the model on an input no generator drew.",
    "technique": "Lean 4 proof (loop invariant for the splitter, representation + slot invariants for the reassembler, refinement of "
                 "the panicking Go-level model to a pure one) with differential correspondence and model-free oracles",
}
