CFG = {
    "props_module": "Hy.Props.C18",
    "gen_modules": ["app"],
    "level": "proof",
    "race": True,
    "streams": [
        {"mod": "app", "component": "c18socks", "driver": "c18", "n": {"quick": 2000, "thorough": 40000}},
        {"mod": "app", "component": "c18http", "driver": "c18", "n": {"quick": 2000, "thorough": 25000}},
        {"mod": "app", "component": "c18xform", "driver": "c18", "n": {"quick": 1500, "thorough": 60000}},
        {"kind": "gotest", "mod": "app", "pkg": "./internal/proxymux", "run": "^TestVerifC18Mux$",
         "component": "c18mux", "driver": "c18mux", "n": {"quick": 800, "thorough": 20000}, "timeout": 3000},
    ],
    "rule": "c18socks/c18http: byte streams built from the protocol's own field structure (method lists around the right "
            "method, RFC 1929 sub-negotiation with right/wrong/empty credentials, CONNECT/UDP/other commands, every address "
            "type incl. IPv6 zero-compression and 255-byte domains; CONNECT/plain HTTP requests with 12 kinds of "
            "Proxy-Authorization, keep-alive pairs), then truncated / bit-flipped / random, each written to a net.Pipe in a "
            "random chunking incl. 1-byte and zero-length writes, with a pipelined payload behind the request; c18xform: "
            "random buffered bytes / first byte, chunkings and read-size scripts incl. zero-length reads; c18mux: histories "
            "of ListenSOCKS/ListenHTTP, sub-listener Close, Accept, base-Accept conn/error, client bytes, and a conn "
            "accepted at the moment the port closes (the design's named histories first, then random ones), each run to "
            "quiescence step by step under testing/synctest. distinct = distinct op line; non-trivial = the server did more "
            "than close (socks/http), bytes were read (xform), a connection was delivered or closed (mux)",
    "trusted_base": [
        "github.com/txthinking/socks5's parsers read with io.ReadFull exactly the byte counts modelled (tied by the c18socks "
        "differential, incl. what the upstream receives behind the request); its constants are regenerated and proved equal",
        "net/http is an oracle of the HTTP model: ReadRequest's results (method, URL host/port, Proxy-Authorization, bytes left "
        "buffered), the scheme check and the address the Transport dials are taken from net/http itself, run on an identically "
        "chunked replica of the stream; strings.ToLower/HasPrefix on the auth scheme is modelled as ASCII lower-casing",
        "net.Pipe read semantics = `readC`/`takeC` (one Write is one chunk; a Read returns at most the rest of the current "
        "chunk; a zero-length Write is a (0,nil) read) — the transformers are driven on real net.Pipe conns",
        "mux: atomicity of the modelled steps (one lock region / channel operation per label); the correspondence runs the "
        "real goroutines to quiescence after each external stimulus, so it covers the eager schedules; the theorems cover all",
        "writes to the local client are assumed to succeed (a failed write only ends the handler earlier)",
    ],
    "assumptions": [
        "stream = list of chunks delivered by the transport; a (0,nil) read is an empty chunk",
        "AuthFunc is an arbitrary pure function of (username, password); dial / UDP-session / bind results are inputs",
        "the base listener never returns the same conn twice",
        "main model = mux.go with fixes/D6.patch, fixes/D7.patch and fixes/D13.patch applied",
    ],
}

MANIFEST = {
    "text": "Proof: Lean theorems over executable models of the SOCKS5 inbound (byte-level RFC 1928/1929 parsing as "
            "txthinking/socks5 does it + server.go's decisions), the HTTP inbound (dispatch loop over an arbitrary request-parser "
            "oracle, Proxy-Authorization check, cachedConn) and the shared port (connWithOneByte; the mux as a transition system "
            "over all schedules). socks_gate / http_gate: with AuthFunc set, for every client byte stream, chunking and AuthFunc, "
            "any HyClient.TCP/UDP is preceded by an AuthFunc call that returned true on credentials framed in that stream (HTTP: "
            "immediately preceded, per request); 'no auth' is never accepted when credentials are configured. pipelined_intact / "
            "first_byte_preserved: under every sequence of read sizes incl. zero-length reads, read ++ pending = buffered ++ rest "
            "(resp. b :: rest). routing + exactly_one_or_closed: for every interleaving of registration, close, arrival and "
            "dispatch steps each accepted connection is delivered to exactly one Accept of the listener its first byte selects "
            "(0x05 SOCKS5, else HTTP) or closed, never leaked, no panic — on mux.go with D6/D7/D13 repaired; decide-checked "
            "counterexamples on the pinned code. Tied to the source by regenerated socks5 constants and four differential "
            "streams against the real handlers on net.Pipe / the real mux under synctest, each with model-free oracles.",
    "note": "Trusted: Lean kernel (+leanchecker), axioms propext/Quot.sound/Classical.choice at most; the Go harness and hydrv "
            "driver; net/http and txthinking/socks5 behave as the oracle/model says on inputs not drawn; atomic-step granularity "
            "of the mux model. The correspondence exercises run-to-quiescence schedules only.",
    "technique": "Lean 4 proof (trace properties of effect lists; stream-transformer invariants; inductive invariant of a "
                 "labelled transition system) with differential correspondence and model-free oracles",
}
