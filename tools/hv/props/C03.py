from .. import common as C

CFG = {
    "props_module": "Hy.Props.C03",
    "extra_props_modules": ["Hy.Props.C03Speedtest"],
    "gen_modules": ["core", "extras"],
    "level": "proof",
    "streams": [
        {"mod": "extras", "component": "speedtest", "driver": "speedtest", "n": {"quick": 3000, "thorough": 100000}},
    ],
    "rule": "per decoder: structured mostly-valid inputs from the repo's own encoders mutated at field boundaries, truncations, "
            "random bytes, each under a random chunking; inputs are copied into exact-size allocations (cap == len) so an over-read "
            "faults; distinct = distinct op line; non-trivial = the decoder got past its first length check",
    "trusted_base": [
        "external parsers (net/http, utls, pion/stun, txthinking/socks5) are exercised under recover() only — not modelled",
    ],
    "assumptions": ["io.Reader contract: a Read returns at most len(p) bytes"],
}

MANIFEST = {
    "text": "Proof (growing): per-decoder totality theorems over Lean models in which every Go index/slice/make/conversion is an "
            "explicit possibly-panicking operation, plus a kernel-decided table of the fault sites counted from the current source, "
            "plus differential/fuzz streams feeding each real decoder under recover() with cap==len inputs.",
    "note": "Trusted: Lean kernel; the Go harness; external parsers not modelled. Decoders covered at this commit are listed in evidence.",
    "technique": "Lean 4 totality proofs over panic-explicit models + regenerated fault-site table + differential fuzz streams",
}
