from .. import common as C

C03_FILES = """core/internal/protocol/proxy.go core/internal/frag/frag.go core/server/udp.go core/client/udp.go
extras/sniff/sniff.go extras/sniff/internal/quic/payload.go extras/sniff/internal/quic/header.go
extras/sniff/internal/quic/packet_protector.go extras/obfs/salamander.go extras/obfs/conn.go extras/obfs/gecko.go
extras/obfs/gecko_frame.go extras/realm/punch.go extras/realm/punch_conn.go extras/realm/stun.go
extras/outbounds/speedtest/server.go extras/outbounds/speedtest/protocol.go""".split()


def gen_sites():
    C.gen_sites("C03", C03_FILES)


# Props/C03.lean imports Props/C04, C05, C14, whose translated definitions (Hy/Gen/Trans*.lean) must be
# regenerated from the tree under check before the build
# (their other regenerated facts too: a file left behind by a run on another tree would be built against)
from .C04 import gen_sites as gen_sites_c04, gen_trans_varint  # noqa: E402
from .C05 import gen_send_shape, gen_trans_udpsize  # noqa: E402
from .C14 import gen_trans_gecko  # noqa: E402


CFG = {
    "gen_hooks": [gen_sites, gen_sites_c04, gen_send_shape, gen_trans_varint, gen_trans_udpsize, gen_trans_gecko],
    "props_module": "Hy.Props.C03",
    "extra_props_modules": ["Hy.Props.C03Speedtest", "Hy.Props.C03ClientUdp"],
    # C03 is about crashes: of the borrowed components' oracles only the panic clauses count here
    # (their other clauses are decided by the owning property's check)
    "oracle_filter_re": r"(?i)panic|runtime error|index out of range|slice bounds|nil pointer|fault|crash|allocat",
    "corpus_from": {"frag": "C05", "defrag": "C05", "sniff": "C17", "gecko": "C14", "punchconn": "C20", "punchcodec": "C20", "salamander": "C13"},
    "gen_modules": ["core", "extras"],
    "level": "proof",
    "streams": [
        {"mod": "extras", "component": "speedtest", "driver": "speedtest", "n": {"quick": 3000, "thorough": 100000}},
        # replies arriving at a client: the real client udpSessionManager (feed / Close / receive-loop exit, and feeds racing a Close)
        {"mod": "core", "component": "cudp", "driver": "cudp", "reset_re": "^reset", "n": {"quick": 4000, "thorough": 100000}},
        # the decoders owned by other properties, re-run here with their malformed/mutated streams (panic oracle + differential)
        {"mod": "core", "component": "frag", "driver": "frag", "compare": "panic-only", "n": {"quick": 3000, "thorough": 100000}},
        {"mod": "core", "component": "defrag", "driver": "defrag", "reset_re": "^reset", "compare": "panic-only", "n": {"quick": 6000, "thorough": 200000}},
        {"mod": "core", "component": "frame", "driver": "frame", "compare": "panic-only", "n": {"quick": 3000, "thorough": 100000}},
        {"mod": "extras", "component": "salamander", "driver": "salamander", "compare": "panic-only", "n": {"quick": 1500, "thorough": 20000}},
        {"mod": "extras", "component": "sniff", "driver": "sniff", "compare": "panic-only", "n": {"quick": 1500, "thorough": 40000}},
        {"mod": "extras", "component": "punchcodec", "driver": "punchcodec", "compare": "panic-only", "n": {"quick": 2000, "thorough": 100000}},
        {"mod": "extras", "component": "punchconn", "driver": "punchconn", "reset_re": "^(reset|conc)", "compare": "panic-only", "n": {"quick": 1500, "thorough": 50000}},
        {"kind": "gotest", "mod": "extras", "pkg": "./obfs", "run": "^TestVerifGecko$", "component": "gecko", "driver": "gecko",
         "reset_re": "^reset", "compare": "panic-only", "n": {"quick": 1500, "thorough": 60000}, "timeout": 3000},
    ],
    "rule": "per decoder: structured mostly-valid inputs from the repo's own encoders mutated at field boundaries, truncations, "
            "random bytes, each under a random chunking; inputs are copied into exact-size allocations (cap == len) so an over-read "
            "faults; distinct = distinct op line; non-trivial = the decoder got past its first length check",
    "trusted_base": [
        "external parsers (net/http, utls, pion/stun, txthinking/socks5) are exercised under recover() only — not modelled",
    ],
    "assumptions": ["io.Reader contract: a Read returns at most len(p) bytes"],
}

MANIFEST = {
    "text": "Proof: per-decoder totality theorems over Lean models in which every Go index/slice/make/conversion is an "
            "explicit possibly-panicking operation, plus a kernel-decided table of the fault sites counted from the current source, "
            "plus differential/fuzz streams feeding each real decoder under recover() with cap==len inputs. The client's UDP receive "
            "side (replies arriving at a client) has its own model: for every sequence of NewUDP/feed/receive/Close/receive-loop-exit "
            "no operation panics (client_udp_never_panics; the send-on-closed-channel site is excluded by the invariant 'in the table "
            "=> channel open', with the lock regions that make each operation atomic regenerated from core/client/udp.go), tied by an "
            "exact differential that also feeds replies from two goroutines while the session is being closed.",
    "note": "Trusted: Lean kernel; the Go harness; external parsers not modelled. pion/stun, utls, net/http are run under recover() only.",
    "technique": "Lean 4 totality proofs over panic-explicit models + regenerated fault-site table + differential fuzz streams",
}
