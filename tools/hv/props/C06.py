import os
import shutil

from .. import common as C


def lean_str(s):
    return '"' + s.replace("\\", "\\\\").replace('"', '\\"') + '"'


def gen_qshape():
    """Statements of every QStream / tcpConn method (go/ast, harness component `qshape`) ->
    lean/Hy/Gen/QShape.lean.  The caller holds the "lean" lock."""
    b, o = C.build_harness("core")
    if b is None:
        raise RuntimeError("harness build failed: " + o[-500:])
    d = os.path.join(C.BUILD, "runs", "qshape-%d" % os.getpid())
    shutil.rmtree(d, ignore_errors=True)
    os.makedirs(d)
    ops = os.path.join(d, "in.ops")
    with open(ops, "w") as f:
        f.write("shape %s %s\n" % (os.path.join(C.REPO, "core", "internal", "utils", "qstream.go"),
                                   os.path.join(C.REPO, "core", "client", "client.go")))
    rc, out = C.run([b, "qshape", "-out", os.path.join(d, "out"), "-ops", ops], timeout=120)
    if rc != 0:
        raise RuntimeError("qshape failed: " + out[-500:])
    line = open(os.path.join(d, "out", "impl.txt")).read().rstrip("\n")
    shutil.rmtree(d, ignore_errors=True)
    lines = ["/- REGENERATED from /repo/core/internal/utils/qstream.go and /repo/core/client/client.go on every run",
             "   (go/ast; tools/hv/props/C06.py). Do not edit.  One list per method: its top-level statements. -/",
             "namespace Hy.Gen.QShape"]
    names = []
    for part in line.split("\x1f"):
        if "\t" not in part:
            raise RuntimeError("qshape: " + line[:300])
        k, v = part.split("\t", 1)
        name = k.replace(".", "_")
        names.append(name)
        stmts = [x for x in v.split("\x1e") if x != ""]
        lines.append("def %s : List String := [%s]" % (name, ", ".join(lean_str(x) for x in stmts)))
    lines.append("def methods : List String := [%s]" % ", ".join(lean_str(n) for n in names))
    lines.append("end Hy.Gen.QShape")
    C.write_gen_file("QShape", "\n".join(lines) + "\n")
# Props/C06.lean imports Props/C04, whose translated definition (Hy/Gen/TransVarint.lean) must be
# regenerated from the tree under check before the build (and its fault-site table: a file left behind by
# a run on another tree would be built against)
from .C04 import gen_sites as gen_sites_c04, gen_trans_varint


CFG = {
    "gen_hooks": [gen_qshape, gen_sites_c04, gen_trans_varint],
    "props_module": "Hy.Props.C06",
    "gen_modules": ["core"],
    "level": "proof",
    "race": True,
    "streams": [
        # tie (1): the real copyBufferLog / copyTwoWayEx under scripted readers, writers, loggers and schedules
        {"mod": "core", "component": "relay", "driver": "relay", "n": {"quick": 5000, "thorough": 100000}},
        # tie (2): the real client + server over loopback UDP with a scripted outbound connection
        {"mod": "core", "component": "relaylb", "driver": "relay", "n": {"quick": 80, "thorough": 1000}, "timeout": 7200},
    ],
    "rule": "relay: one op = one run of the REAL copyBufferLog (70%) or copyTwoWayEx (30%, both goroutines gated so that "
            "their interleaving and the teardown points are the PRNG's schedule) against a scripted source (0..40 reads; sizes 0, 1, "
            "…, 32767/32768/32769, 65536, 70000; nil/EOF/error incl. data-with-EOF and zero-length reads), a scripted logger (veto at a "
            "random chunk) and a scripted sink (error / short write at a random chunk); compared exactly with the model on result class, "
            "digest of the forwarded bytes, logged/offered/in-flight counts and the full sequence of Read/log/Write calls. "
            "relaylb: one op = one proxied TCP connection through the real client and server over loopback (fresh pair per op), classes "
            "tfin/cfin/cwfin(client closes right after its last write)/twfin(target ends right after its last bytes)/cearly/tearly/trerr/twerr/veto(T|R × now|late)/dial(0,1,2047,2048,2049,5000,random), fast open on/off, logger "
            "present/absent, RequestHook absent / declining / intercepting-without-change, and (fast open) 0-2 Reads that time out while the outbound "
            "dial is held back; dial ops compared exactly with the model, relay ops by evaluating the model's relations on the observed trace. "
            "distinct = distinct op line; non-trivial = bytes were forwarded or logged, a chunk was refused, or a dial error was delivered",
    "trusted_base": [
        "io.Reader/io.Writer contracts: Read returns at most len(buf) bytes; Write returns a non-nil error whenever it accepts fewer bytes "
        "than given (copyBufferLog ignores the count)",
        "the contract of quic-go's *quic.Stream as stated in Hy.Model.QStream (Write/Close/CancelWrite/CancelRead/Read per half, read from "
        "send_stream.go / receive_stream.go), reliable ordered delivery up to FIN, CloseWithError kills all streams; QStream and tcpConn's "
        "write/close/deadline methods themselves are modelled and tied to the source by go/ast facts (Hy.Gen.QShape) decided in Lean",
        "atomicity: one call of src.Read / the logger / dst.Write / a channel operation is one step; the refusing LogTraffic call and the "
        "connection close it triggers (D11 repair) are one step of the refusing goroutine",
        "copyTwoWay (no traffic logger, io.Copy) is modelled as the same loop with a logger that always approves; only prefix integrity and "
        "completeness are checked for it (loopback, logger absent)",
        "the model Hy.Model.Relay is tied to core/server/copy.go by the exact differential stream `relay` and the regenerated constant "
        "copyBufSize, and to handleTCPRequest / Client.TCP by the loopback stream `relaylb` (trace validation + exact dial-error differential)",
    ],
    "assumptions": [
        "connections that a RequestHook intercepts are outside the property",
        "completeness (complete_if_no_early_close) is proved under an explicit fairness hypothesis (the direction is scheduled until it returns); "
        "the loopback classes tfin/cfin check it on the implementation with a 10 s bound",
        "a dial error text longer than MaxMessageLength is delivered cut to MaxMessageLength bytes (D5 repair)",
    ],
}

MANIFEST = {
    "text": "Proof: Lean theorems over an executable small-step model of copyBufferLog, copyTwoWayEx + handleTCPRequest's teardown and the "
            "dial/TCPResponse/Client.TCP exchange. For EVERY schedule of the two copy goroutines and the handler, every sequence of read results, "
            "logger verdicts and write results (errors, short writes, closes at any point): forwarded bytes are a prefix of the source per "
            "direction; approved = forwarded + in-flight with in-flight <= one chunk <= 32768 and zero unless a write failed after the log call; "
            "every Write directly follows the approval of that chunk; the first refusal returns errDisconnect at once, forwards nothing of the "
            "chunk and closes the connection in both directions; a clean direction that returns has forwarded everything (fairness hypothesis); "
            "a failed dial reaches the client as DialError with the message (cut to 2048 bytes) for every padding and chunking, via C04's round "
            "trip. Tied to the source by regenerated constants, a 5000-case exact differential of the real copy functions under scripted "
            "environments and imposed schedules, and 80 real client/server loopback relays per run (thorough: 100000 + 1000, -race).",
    "note": "Trusted: Lean kernel (+leanchecker); the Go harness and hydrv; io.Reader/io.Writer contracts; quic-go stream semantics; step "
            "atomicity. Completeness is partial (fairness is a hypothesis). Residual risk: implementation differs from the model on an "
            "input/schedule the generators did not draw.",
    "technique": "Lean 4 proof (per-goroutine invariant lifted to all schedules, refinement-free small-step model) with differential correspondence "
                 "and trace validation",
}
