"""C13 — Salamander is transparent, spec-exact, and drops junk."""
import hashlib
import os
import subprocess

from .. import common as C


def hashlib_crosscheck(tier, seed, binaries):
    """Third implementation: the Lean BLAKE2b-256 (driver op `hash`) against Python's hashlib on
    every length 0..300 plus block boundaries further out, contents derived from the seed."""
    hydrv = os.path.join(C.LEAN, ".lake", "build", "bin", "hydrv")
    lens = list(range(0, 301)) + [383, 384, 385, 511, 512, 513, 1023, 1024, 1025]
    if tier == "thorough":
        lens += list(range(301, 1200, 7))
    inputs = []
    for i, n in enumerate(lens):
        inputs.append(hashlib.shake_128(b"C13/%d/%d/%d" % (seed, i, n)).digest(n))
    lines = "".join("hash %s\n" % (d.hex() or "-") for d in inputs)
    p = subprocess.run([hydrv, "salamander"], input=lines, capture_output=True, text=True, timeout=600)
    out = p.stdout.split("\n")
    tb = []
    if p.returncode != 0 or len(out) < len(inputs):
        tb.append({"what": "hydrv salamander did not answer the hashlib cross-check", "detail": p.stderr[-1000:]})
        return tb, [], None
    bad = 0
    for d, ln in zip(inputs, out):
        want = "hash " + hashlib.blake2b(d, digest_size=32).hexdigest()
        if ln != want:
            bad += 1
            if bad <= 3:
                tb.append({"what": "Lean BLAKE2b-256 differs from hashlib.blake2b on a %d-byte input" % len(d),
                           "detail": "input=%s lean=%s hashlib=%s" % (d.hex(), ln, want)})
    return tb, [], "Lean BLAKE2b-256 == hashlib.blake2b(digest_size=32) on %d inputs (every length 0..300, block boundaries to 1025)" % len(inputs)


CFG = {
    "props_module": "Hy.Props.C13",
    "gen_modules": ["extras"],
    "level": "proof",
    "race": True,
    "streams": [
        {"mod": "extras", "component": "salamander", "driver": "salamander",
         "n": {"quick": 6000, "thorough": 30000}},
    ],
    "extra_checks": [hashlib_crosscheck],
    "rule": "xfer ops (≈87%): two sockets wrapped by the exported WrapPacketConnSalamander with one key (keys 0..3 bytes refused, 4..64, "
            "and 65..249 so that key‖salt crosses a BLAKE2b block); 1..8 items per op — payloads written through A (lengths 0, 1, 2, "
            "31..33, 63..65, 1199/1200/1252/1452, 2039, 2040, random 1..2040, and 2041..4000 which the property does not cover), writes "
            "whose inner WriteTo fails, raw junk of 0..9 bytes, longer junk, datagrams at/above the 2048-byte read buffer, datagrams "
            "delivered with an inner read error — all in random interleavings; reader buffer 2048/65536/1452/exact/one-short/tiny/0; "
            "inner sockets: in-memory PacketConn (obfsPacketConn), in-memory UDP-like conn (obfsPacketConnUDP) and real *net.UDPConn on "
            "loopback in every A/B combination. hash ops (8%): x/crypto vs Lean BLAKE2b on 0..400 bytes incl. block boundaries. new ops (5%): "
            "PSK gate, wrapper type, SetReadBuffer/SetWriteBuffer/SyscallConn pass-through. conc ops (0.5%): one looped-back socket, 1..4 "
            "writers x 1..12 packets, 1..4 readers, 0..10 junk datagrams injected concurrently (thorough: under -race). duplex ops (one per 1000 "
            "ops + 3 in the corpus): ONE receive loop against ONE send loop on the same socket, 3000 packets each way, 16-byte and 1 KiB "
            "keys alternating, inbound datagrams built with the PROTOCOL.md reference, every packet spec-checked in both directions. distinct = distinct "
            "op line; non-trivial = at least one payload of 1..2040 bytes had to arrive (xfer/conc), every hash/new op",
    "trusted_base": [
        "the inner socket's ReadFrom copies min(len(datagram), len(buf)) bytes of ONE datagram and reports that count; its WriteTo sends "
        "the slice it is given as one datagram (net.PacketConn contract; the in-memory sockets of the harness and the loopback UDP "
        "sockets behave so)",
        "math/rand.(*Rand).Read fills all 8 salt bytes (the salt actually used is read off the captured wire and given to the model)",
        "atomicity: one WriteTo call (writeMutex region incl. the obfuscator's lk region) and one ReadFrom loop iteration (readMutex "
        "region) are atomic steps of the schedule model; not proved; supported by go/ast facts regenerated on every run (Obfuscate and "
        "Deobfuscate each touch the shared keyInput scratch buffer only inside their o.lk region — theorem "
        "key_scratch_buffer_locked_in_both_directions), by the reader-against-writer `duplex` ops and by the -race stress of the thorough tier",
        "the Lean BLAKE2b (Hy/Crypto/Blake2b.lean) is BLAKE2b: RFC 7693 App. A and hashlib vectors at build (two of them evaluated by "
        "the Lean kernel as theorems, the multi-block ones by #guard), x/crypto differential (op hash) and hashlib cross-check on every run",
        "the model Hy.Model.Salamander is tied to extras/obfs/salamander.go and conn.go by the differential stream `salamander` (wire "
        "bytes recomputed by Lean from key, salt read off the wire and payload; byte counts; every ReadFrom result) and by the constants "
        "smSaltLen, smKeyLen, smPSKMinLen, udpBufferSize regenerated from the compiled package",
    ],
    "assumptions": [
        "the 8 salt bytes, the failure of the inner WriteTo, the incoming datagrams (bytes, source address, accompanying error) and the "
        "reader's buffer length are inputs of the model; theorems quantify over all of them",
        "the property quantifies payloads 1..2040: above 2040 the wrapper sends an EMPTY datagram and reports success "
        "(theorem above_2040_sends_empty describes it; not claimed as correct)",
        "a 0-byte datagram makes ReadFrom return (0, addr, nil) instead of being skipped (theorem empty_datagram_returns_zero): no "
        "byte surfaces, the call returns; quic-go ignores empty packets",
        "a reader buffer shorter than the payload drops the packet (theorem small_buffer_drops); quic-go reads with buffers larger "
        "than any packet",
    ],
}

MANIFEST = {
    "text": "Proof: Lean theorems over an executable model of Salamander's Obfuscate/Deobfuscate/PSK gate and of the socket wrapper's "
            "ReadFrom loop and WriteTo with their 2048-byte buffers. For an ARBITRARY hash function: round trip for every key ≥ 4 bytes, "
            "8-byte salt and payload 1..2040 through WriteTo→ReadFrom with n = |p| and the sender's address; every interleaving of "
            "1..8-byte junk and valid packets yields exactly the valid payloads in order; a positive ReadFrom count always comes from a "
            "datagram longer than 8 bytes and excludes the salt; WriteTo reports |p|; keys under 4 bytes refused; every schedule of "
            "writers, readers and junk arrivals on one socket delivers exactly what was sent. With the hash instantiated by a Lean "
            "BLAKE2b-256 written from RFC 7693 (kernel-checked known answers): wire = salt ‖ payload[i] xor BLAKE2b-256(key‖salt)[i mod 32], "
            "length |p|+8. Tied to the source by regenerated constants and a 6k-op (quick) differential in which Lean recomputes every "
            "captured wire datagram and every ReadFrom result; thorough adds 30k ops under -race with concurrent readers and writers.",
    "note": "Trusted: Lean kernel (+leanchecker), axioms propext/Quot.sound at most; the Go harness (in-memory and loopback sockets) and "
            "hydrv; net.PacketConn datagram contract of the inner socket; lock regions as atomic steps (race-stressed, not proved). "
            "Outside the property, described by theorems only: payload > 2040 sends an empty datagram and reports success; a 0-byte "
            "datagram returns (0, addr, nil); a too-small reader buffer drops the packet.",
    "technique": "Lean 4 proof (hash-parametric round trip, filterMap characterisation of the reader loop, schedule invariant) with an "
                 "independent BLAKE2b and differential correspondence on captured wire bytes",
}
