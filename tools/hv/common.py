"""Shared machinery of the checks: build steps, the tie to /repo, audits, the
differential, the decision (PASS / VIOLATION / KNOWN-FINDING) and the evidence file.

Layout (all under /verif):
  lean/            lake project (models, proofs, property theorems, hydrv driver)
  harness/<mod>/   Go sources overlaid into /repo/<mod> with `-overlay` (tag: verif)
  .build/          scratch: overlay.json, harness binaries, run directories (ignored by git)
  corpus/<Cxx>/    minimised past failures, replayed first
  replays/         written on violations
  evidence/        written on every run
"""
import fcntl
import hashlib
import json
import os
import re
import shutil
import subprocess
import sys
import time

VERIF = os.path.dirname(os.path.dirname(os.path.dirname(os.path.abspath(__file__))))
REPO = os.environ.get("VERIF_REPO", "/repo")
LEAN = os.path.join(VERIF, "lean")
BUILD = os.path.join(VERIF, ".build")
HARNESS = os.path.join(VERIF, "harness")
MODULES = ["core", "extras", "app"]
ALLOWED_AXIOMS = {"propext", "Classical.choice", "Quot.sound"}
FORBIDDEN = re.compile(r"\bsorry\b|\badmit\b|^axiom |native_decide|bv_decide|implemented_by|\bunsafe |maxHeartbeats 0|@\[extern")


def log(*a):
    print(*a, file=sys.stderr, flush=True)


def goenv():
    env = dict(os.environ)
    # default `go` with GOTOOLCHAIN unset switches offline to the cached go1.25.0 the
    # repo needs; GOSUMDB=off would break that switch; -mod=mod must not be set in
    # workspace mode.
    for k in ("GOTOOLCHAIN", "GOSUMDB"):
        env.pop(k, None)
    if "-mod=mod" in env.get("GOFLAGS", ""):
        env["GOFLAGS"] = env["GOFLAGS"].replace("-mod=mod", "").strip()
    env["GOPROXY"] = "off"
    env["GOWORK"] = os.path.join(REPO, "go.work")
    return env


class Lock:
    """Serialises lake builds / Gen regeneration between concurrently running checks."""

    def __init__(self, name):
        os.makedirs(BUILD, exist_ok=True)
        self.path = os.path.join(BUILD, name + ".lock")

    def __enter__(self):
        self.f = open(self.path, "w")
        fcntl.flock(self.f, fcntl.LOCK_EX)
        return self

    def __exit__(self, *a):
        fcntl.flock(self.f, fcntl.LOCK_UN)
        self.f.close()


def run(cmd, cwd=None, env=None, timeout=None, stdin=None, stdout=subprocess.PIPE):
    p = subprocess.run(cmd, cwd=cwd, env=env, timeout=timeout, stdin=stdin, stdout=stdout,
                       stderr=subprocess.STDOUT, text=True, errors="replace")
    return p.returncode, (p.stdout or "")


# ----------------------------------------------------------------- overlay + Go builds

def write_overlay():
    """Map every file under harness/<mod>/ to the same relative path under /repo/<mod>/.
    A file named `x.go.replace` REPLACES /repo/<mod>/x.go (instrumented copies are
    produced by the per-property code, not stored)."""
    repl = {}
    for mod in MODULES:
        root = os.path.join(HARNESS, mod)
        for d, _, files in os.walk(root):
            for fn in files:
                if not fn.endswith(".go"):
                    continue
                src = os.path.join(d, fn)
                rel = os.path.relpath(src, root)
                repl[os.path.join(REPO, mod, rel)] = src
    extra = os.path.join(BUILD, "overlay-extra.json")
    if os.path.exists(extra):
        repl.update(json.load(open(extra)))
    os.makedirs(BUILD, exist_ok=True)
    path = os.path.join(BUILD, "overlay.json")
    data = json.dumps({"Replace": repl}, indent=1, sort_keys=True)
    tmp = path + ".%d" % os.getpid()
    with open(tmp, "w") as f:
        f.write(data)
    os.replace(tmp, path)
    return path


def build_harness(mod, race=False):
    """go build the overlaid `package main` of module `mod` from /repo's working tree."""
    ov = write_overlay()
    name = "verif-" + mod + ("-race" if race else "")
    out = os.path.join(BUILD, "bin", name)
    os.makedirs(os.path.dirname(out), exist_ok=True)
    cmd = ["go", "build", "-tags", "verif", "-overlay", ov, "-o", out + ".%d" % os.getpid()]
    if race:
        cmd.append("-race")
    cmd.append("./verifh")
    rc, o = run(cmd, cwd=os.path.join(REPO, mod), env=goenv(), timeout=1200)
    if rc != 0:
        return None, o
    os.replace(out + ".%d" % os.getpid(), out)
    return out, o


def go_test(mod, pkg, run_re, race=False, env_extra=None, timeout=1800, count=1):
    """go test an overlaid _test.go harness inside a package of /repo."""
    ov = write_overlay()
    cmd = ["go", "test", "-tags", "verif", "-overlay", ov, "-vet=off", "-count=%d" % count,
           "-run", run_re, "-timeout", "%ds" % timeout]
    if race:
        cmd.append("-race")
    cmd.append(pkg)
    env = goenv()
    env.update(env_extra or {})
    return run(cmd, cwd=os.path.join(REPO, mod), env=env, timeout=timeout + 60)


# ----------------------------------------------------------------- Gen (regenerated facts)

def lean_ident(k):
    return re.sub(r"[^A-Za-z0-9_]", "_", k)


def regen_consts(mod, binary):
    """Run `<bin> consts` (values read from the compiled packages of the current working
    tree) and rewrite lean/Hy/Gen/<Mod>.lean if the content changed."""
    rc, o = run([binary, "consts"], timeout=60)
    if rc != 0:
        return False, o
    lines = ["/- REGENERATED from /repo on every run by tools/run.py (`verif-%s consts`). Do not edit. -/" % mod,
             "namespace Hy.Gen"]
    for ln in o.splitlines():
        m = re.match(r"(\S+) (nat|str) (.*)$", ln)
        if not m:
            continue
        k, ty, v = m.groups()
        if ty == "nat":
            lines.append("def %s : Nat := %s" % (lean_ident(k), v))
        else:
            lines.append("def %s : String := %s" % (lean_ident(k), v))
    lines.append("end Hy.Gen")
    text = "\n".join(lines) + "\n"
    os.makedirs(os.path.join(LEAN, "Hy", "Gen"), exist_ok=True)
    path = os.path.join(LEAN, "Hy", "Gen", mod.capitalize() + ".lean")
    os.makedirs(os.path.dirname(path), exist_ok=True)
    old = open(path).read() if os.path.exists(path) else None
    if old != text:
        with open(path, "w") as f:
            f.write(text)
    return True, text


def write_gen_file(name, text):
    os.makedirs(os.path.join(LEAN, "Hy", "Gen"), exist_ok=True)
    path = os.path.join(LEAN, "Hy", "Gen", name + ".lean")
    os.makedirs(os.path.dirname(path), exist_ok=True)
    old = open(path).read() if os.path.exists(path) else None
    if old != text:
        with open(path, "w") as f:
            f.write(text)


def build_verifgen():
    """The fact extractor (harness/gen, stdlib only) is built outside /repo's workspace."""
    out = os.path.join(BUILD, "bin", "verifgen")
    os.makedirs(os.path.dirname(out), exist_ok=True)
    env = dict(os.environ)
    env.pop("GOFLAGS", None)
    env.update({"GOWORK": "off", "GOPROXY": "off", "GOTOOLCHAIN": "local"})
    rc, o = run(["go", "build", "-o", out + ".%d" % os.getpid(), "."], cwd=os.path.join(HARNESS, "gen"), env=env, timeout=600)
    if rc != 0:
        raise RuntimeError("verifgen build failed: " + o[-2000:])
    os.replace(out + ".%d" % os.getpid(), out)
    return out


def gen_sites(tag, files, only=None):
    """Regenerate lean/Hy/Gen/Sites<tag>.lean from the CURRENT source of `files` (paths relative
    to /repo): per function, the number of index / slice / make / div-mod / fixed-width
    conversion / panic / unchecked type-assertion sites.  The Props file holds the expected
    table (with the covering theorem per function); the kernel decides equality."""
    b = build_verifgen()
    rc, o = run([b, REPO] + list(files), timeout=120)
    if rc != 0:
        raise RuntimeError("verifgen failed: " + o[-2000:])
    rows = []
    for ln in o.splitlines():
        f = ln.split()
        if len(f) != 8:
            continue
        if only and not re.search(only, f[0]):
            continue
        rows.append('  ("%s", [%s])' % (f[0], ", ".join(f[1:])))
    text = ("/- REGENERATED from /repo on every run (harness/gen). Do not edit.\n"
            "   per function: [index, slice, make, div/mod, fixed-width conversion, panic, unchecked type assertion] -/\n"
            "namespace Hy.Gen.Sites%s\ndef sites : List (String × List Nat) := [\n%s\n]\nend Hy.Gen.Sites%s\n"
            % (tag, ",\n".join(rows), tag))
    write_gen_file("Sites" + tag, text)
    return o


def gen_translate(name, targets, types=None, consts=None, externs=None):
    """Regenerate lean/Hy/Gen/Trans<name>.lean: Lean definitions TRANSLATED from the current Go
    source of `targets` ("<file relative to /repo>:<[Recv.]Func>") by harness/gen/translate.go
    (a small straight-line integer subset of Go; Go's wrap-around, truncated division and panics
    explicit — lean/Hy/Base/GoInt.lean).  The owning Props file proves, for all inputs, that the
    regenerated definitions equal the hand-written model functions.  A function that has left
    the subset is omitted from the file (so the theorem about it stops building) and this hook
    raises, which the check reports as a broken tie.
      types   {"congestion.ByteCount": "int64"}     named integer types of other packages
      consts  {"congestion.MinPacingDelay": "time.Duration"}   constants of other packages → parameters
      externs {"quicvarint.Len": "uint64:int"}      functions treated as parameters (args:ret)"""
    b = build_verifgen()
    cmd = [b, "translate", REPO, "-name", name]
    for k, v in sorted((types or {}).items()):
        cmd += ["-type", "%s=%s" % (k, v)]
    for k, v in sorted((consts or {}).items()):
        cmd += ["-const", "%s=%s" % (k, v)]
    for k, v in sorted((externs or {}).items()):
        cmd += ["-extern", "%s=%s" % (k, v)]
    p = subprocess.run(cmd + list(targets), stdout=subprocess.PIPE, stderr=subprocess.PIPE, text=True, errors="replace", timeout=120)
    if p.returncode not in (0, 1) or "namespace Hy.Gen.Trans" not in p.stdout:
        # nothing usable was produced: leave a file without definitions so that nothing stale is built against
        write_gen_file("Trans" + name, "/- verifgen translate failed -/\nnamespace Hy.Gen.Trans%s\nend Hy.Gen.Trans%s\n" % (name, name))
        raise RuntimeError("verifgen translate failed: " + (p.stderr or p.stdout)[-2000:])
    write_gen_file("Trans" + name, p.stdout)
    if p.returncode != 0:
        raise RuntimeError("Go function(s) no longer inside the translatable subset: " + p.stderr.strip()[-2000:])
    return p.stdout


# ----------------------------------------------------------------- Lean: build, audit, recheck

def lake_build(targets):
    rc, o = run(["lake", "build"] + targets, cwd=LEAN, timeout=3600)
    return rc == 0, o


def strip_comments(src):
    # remove /- ... -/ (nested not handled beyond one level, good enough) and -- comments
    out = []
    depth = 0
    i = 0
    while i < len(src):
        if src.startswith("/-", i):
            depth += 1
            i += 2
        elif src.startswith("-/", i) and depth > 0:
            depth -= 1
            i += 2
        elif depth > 0:
            if src[i] == "\n":
                out.append("\n")
            i += 1
        elif src.startswith("--", i):
            while i < len(src) and src[i] != "\n":
                i += 1
        else:
            out.append(src[i])
            i += 1
    return "".join(out)


def module_file(mod):
    return os.path.join(LEAN, *mod.split(".")) + ".lean"


def transitive_imports(mod, seen=None):
    """Project-local modules reachable from `mod` (Hy.*)."""
    seen = seen if seen is not None else set()
    if mod in seen:
        return seen
    seen.add(mod)
    try:
        src = open(module_file(mod)).read()
    except FileNotFoundError:
        return seen
    for m in re.finditer(r"^import\s+(Hy\.[A-Za-z0-9_.]+)", src, re.M):
        transitive_imports(m.group(1), seen)
    return seen


def theorems_of(mod):
    """Names of the theorems declared in a Props module (with their namespace)."""
    src = strip_comments(open(module_file(mod)).read())
    ns = []
    out = []
    for ln in src.splitlines():
        m = re.match(r"\s*namespace\s+(\S+)", ln)
        if m:
            ns.append(m.group(1))
            continue
        m = re.match(r"\s*end\s+(\S+)", ln)
        if m and ns and ns[-1] == m.group(1):
            ns.pop()
            continue
        m = re.match(r"\s*(?:@\[[^\]]*\]\s*)?(?:private\s+|protected\s+)?theorem\s+(\S+)", ln)
        if m:
            out.append(".".join(ns + [m.group(1)]))
    return out


def audit(props_mod):
    """(ok, report): no forbidden token in any project module the Props file depends on,
    and every property theorem depends only on the three standard axioms."""
    problems = []
    mods = sorted(transitive_imports(props_mod))
    for m in mods:
        src = strip_comments(open(module_file(m)).read())
        for i, ln in enumerate(src.splitlines(), 1):
            if FORBIDDEN.search(ln):
                problems.append("%s:%d: forbidden token: %s" % (m, i, ln.strip()[:120]))
    thms = theorems_of(props_mod)
    if not thms:
        problems.append("no theorems found in " + props_mod)
    os.makedirs(os.path.join(BUILD, "audit"), exist_ok=True)
    f = os.path.join(BUILD, "audit", props_mod.replace(".", "_") + "_%d.lean" % os.getpid())
    with open(f, "w") as fh:
        fh.write("import %s\n" % props_mod)
        for t in thms:
            fh.write("#print axioms %s\n" % t)
    rc, o = run(["lake", "env", "lean", f], cwd=LEAN, timeout=900)
    os.unlink(f)
    axioms = {}
    cur = None
    # output: 'X' depends on axioms: [a, b]   or   'X' does not depend on any axioms
    for m in re.finditer(r"'([^']+)' (does not depend on any axioms|depends on axioms: \[([^\]]*)\])", o):
        name = m.group(1)
        ax = set() if m.group(3) is None else {a.strip() for a in m.group(3).replace("\n", " ").split(",") if a.strip()}
        axioms[name] = ax
    for t in thms:
        if t not in axioms:
            problems.append("no axiom report for theorem %s" % t)
        else:
            bad = axioms[t] - ALLOWED_AXIOMS
            if bad:
                problems.append("theorem %s depends on %s" % (t, sorted(bad)))
    if rc != 0:
        problems.append("axiom audit file failed to elaborate: " + o[-2000:])
    used = sorted(set().union(*axioms.values())) if axioms else []
    return (not problems), {"theorems": thms, "axioms_used": used, "problems": problems, "modules": mods}


def leanchecker(mods):
    rc, o = run(["lake", "env", "leanchecker"] + mods, cwd=LEAN, timeout=3600)
    return rc == 0, o


# ----------------------------------------------------------------- differential

def run_stream(binary, component, driver, seed, n, outdir, ops_file=None, timeout=3600, env_extra=None):
    """Run one correspondence stream: harness (real code) → ops/mops/impl/oracle;
    Lean driver on mops → model.txt; returns a dict with the comparison."""
    shutil.rmtree(outdir, ignore_errors=True)
    os.makedirs(outdir)
    cmd = [binary, component, "-seed", str(seed), "-n", str(n), "-out", outdir]
    if ops_file:
        cmd += ["-ops", ops_file]
    env = dict(os.environ)
    env.setdefault("GOMEMLIMIT", "8GiB")
    env.update(env_extra or {})
    t0 = time.time()
    rc, o = run(cmd, env=env, timeout=timeout)
    if rc != 0:
        return {"component": component, "harness_rc": rc, "harness_out": o[-4000:], "dir": outdir,
                "mismatches": [], "oracle": [], "cases": 0, "harness_s": round(time.time() - t0, 2),
                "error": "harness exited %d" % rc}
    res = compare_dir(component, driver, outdir, timeout=timeout)
    res["harness_rc"] = rc
    res["harness_out"] = o[-4000:]
    res["harness_s"] = round(time.time() - t0, 2)
    return res


def compare_dir(component, driver, outdir, timeout=3600):
    """Run the Lean driver on mops.txt and diff its output with impl.txt."""
    res = {"component": component, "dir": outdir, "mismatches": [], "oracle": [], "cases": 0}
    hydrv = os.path.join(LEAN, ".lake", "build", "bin", "hydrv")
    t1 = time.time()
    with open(os.path.join(outdir, "mops.txt")) as fin, open(os.path.join(outdir, "model.txt"), "w") as fout:
        p = subprocess.run([hydrv, driver], stdin=fin, stdout=fout, stderr=subprocess.PIPE, text=True, timeout=timeout)
    res["driver_s"] = round(time.time() - t1, 2)
    if p.returncode != 0:
        res["error"] = "hydrv %s exited %d: %s" % (driver, p.returncode, p.stderr[-2000:])
        return res
    # fast path (large streams): byte-identical outputs and no oracle line => nothing to report
    try:
        import filecmp
        if (os.path.getsize(os.path.join(outdir, "oracle.txt")) == 0 and
                filecmp.cmp(os.path.join(outdir, "impl.txt"), os.path.join(outdir, "model.txt"), shallow=False)):
            n = 0
            with open(os.path.join(outdir, "ops.txt"), "rb") as fh:
                while True:
                    b = fh.read(1 << 24)
                    if not b:
                        break
                    n += b.count(b"\n")
            res["cases"] = n
            try:
                res["stats"] = json.load(open(os.path.join(outdir, "stats.json")))
            except Exception as e:  # noqa
                res["stats"] = {"error": str(e)}
            return res
    except OSError:
        pass
    ops = open(os.path.join(outdir, "ops.txt")).read().split("\n")
    mops = open(os.path.join(outdir, "mops.txt")).read().split("\n")
    impl = open(os.path.join(outdir, "impl.txt")).read().split("\n")
    model = open(os.path.join(outdir, "model.txt")).read().split("\n")
    if ops and ops[-1] == "":
        ops.pop(); mops.pop(); impl.pop()
    if model and model[-1] == "":
        model.pop()
    res["cases"] = len(ops)
    if len(model) != len(impl):
        res["error"] = "driver produced %d lines for %d ops" % (len(model), len(impl))
        return res
    for i, (a, b) in enumerate(zip(impl, model)):
        if a != b:
            res["mismatches"].append({"line": i + 1, "op": ops[i], "model_op": mops[i], "impl": a, "model": b})
    for ln in open(os.path.join(outdir, "oracle.txt")):
        ln = ln.rstrip("\n")
        if not ln:
            continue
        k, _, msg = ln.partition("\t")
        k = int(k)
        res["oracle"].append({"line": k, "op": ops[k - 1], "impl": impl[k - 1], "what": msg})
    try:
        res["stats"] = json.load(open(os.path.join(outdir, "stats.json")))
    except Exception as e:  # noqa
        res["stats"] = {"error": str(e)}
    return res


def prefix_ops(ops_path, upto_line, reset_re=None):
    """For stateful streams: the op sequence from the last `reset` op up to and including line."""
    ops = open(ops_path).read().split("\n")
    start = 0
    if reset_re:
        for i in range(upto_line - 1, -1, -1):
            if re.match(reset_re, ops[i]):
                start = i
                break
    return ops[start:upto_line]


# ----------------------------------------------------------------- findings / decision / evidence

def load_known():
    p = os.path.join(VERIF, "known_findings.json")
    if not os.path.exists(p):
        return []
    return [e for e in json.load(open(p)).get("findings", []) if e.get("status") == "known"]


def match_known(prop, failure, known):
    """A failure {component, op, what} is a known finding iff an entry of the same
    property matches its component and both regexes (on the op line and on the
    description of what failed)."""
    for e in known:
        if e["property"] != prop:
            continue
        m = e.get("match", {})
        if m.get("component") and m["component"] != failure.get("component"):
            continue
        if m.get("op_re") and not re.search(m["op_re"], failure.get("op", "")):
            continue
        if m.get("what_re") and not re.search(m["what_re"], failure.get("what", "")):
            continue
        return e
    return None


def write_replay(prop, kind, payload):
    os.makedirs(os.path.join(VERIF, "replays"), exist_ok=True)
    h = hashlib.sha1(json.dumps(payload, sort_keys=True).encode()).hexdigest()[:10]
    path = os.path.join(VERIF, "replays", "%s-%s-%s.json" % (prop, kind, h))
    with open(path, "w") as f:
        json.dump(payload, f, indent=1)
    return path


def write_evidence(prop, ev, scratch=False):
    # evidence/ describes runs against /repo itself; a run against a scratch copy (VERIF_REPO set
    # by the seeded-change / mutation tooling) must not overwrite it
    edir = os.path.join(VERIF, "evidence") if (os.path.realpath(REPO) == "/repo" and not scratch) else os.path.join(BUILD, "evidence-scratch")
    os.makedirs(edir, exist_ok=True)
    path = os.path.join(edir, prop + ".json")
    tmp = path + ".tmp%d" % os.getpid()
    with open(tmp, "w") as f:
        json.dump(ev, f, indent=1)
    os.replace(tmp, path)
    return path
