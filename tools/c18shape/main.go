// c18shape: where does muxListener.dispatch keep the protocol-detection byte?
// Parses mux.go with go/parser (no type checking) and classifies the buffer handed to the first
// io.ReadFull / io.ReadAtLeast / <conn>.Read call in (*muxListener).dispatch:
//
//	kind=1  rooted in a variable DECLARED INSIDE dispatch with fresh storage (var b [N]byte,
//	        make(...), new(...), a composite literal): private to this connection's goroutine
//	kind=2  rooted in a field of the receiver / a package-level variable, directly or through a
//	        local alias (b := l.buf[:]): shared by all dispatch goroutines
//	kind=0  anything else (unknown — left to the dynamic check)
package main

import (
	"flag"
	"fmt"
	"go/ast"
	"go/parser"
	"go/token"
	"os"
)

func root(e ast.Expr) ast.Expr {
	for {
		switch x := e.(type) {
		case *ast.SliceExpr:
			e = x.X
		case *ast.IndexExpr:
			e = x.X
		case *ast.ParenExpr:
			e = x.X
		case *ast.StarExpr:
			e = x.X
		case *ast.UnaryExpr:
			e = x.X
		default:
			return e
		}
	}
}

func fresh(e ast.Expr) bool {
	switch x := e.(type) {
	case *ast.CompositeLit:
		return true
	case *ast.CallExpr:
		if id, ok := x.Fun.(*ast.Ident); ok && (id.Name == "make" || id.Name == "new") {
			return true
		}
	case *ast.UnaryExpr:
		if x.Op == token.AND {
			_, ok := x.X.(*ast.CompositeLit)
			return ok
		}
	}
	return false
}

// classify an expression used as (the root of) the read buffer
func classify(e ast.Expr, fn *ast.FuncDecl, recv string, depth int) int {
	switch x := root(e).(type) {
	case *ast.SelectorExpr:
		if id, ok := root(x.X).(*ast.Ident); ok && id.Name == recv {
			return 2
		}
		return 0
	case *ast.Ident:
		if x.Obj == nil {
			return 2 // not declared in this file's scopes we can see: package-level elsewhere
		}
		if x.Obj.Pos() < fn.Body.Lbrace || x.Obj.Pos() > fn.Body.Rbrace {
			if x.Obj.Kind == ast.Var {
				return 2 // package-level variable or parameter
			}
			return 0
		}
		switch d := x.Obj.Decl.(type) {
		case *ast.ValueSpec:
			if len(d.Values) == 0 {
				return 1 // var b [N]byte
			}
			for i, n := range d.Names {
				if n.Name == x.Name && i < len(d.Values) {
					if fresh(d.Values[i]) {
						return 1
					}
					if depth < 4 {
						return classify(d.Values[i], fn, recv, depth+1)
					}
				}
			}
		case *ast.AssignStmt:
			for i, l := range d.Lhs {
				if id, ok := l.(*ast.Ident); ok && id.Name == x.Name && i < len(d.Rhs) {
					if fresh(d.Rhs[i]) {
						return 1
					}
					if depth < 4 {
						return classify(d.Rhs[i], fn, recv, depth+1)
					}
				}
			}
		}
	}
	return 0
}

func main() {
	in := flag.String("in", "", "mux.go")
	flag.Parse()
	fset := token.NewFileSet()
	f, err := parser.ParseFile(fset, *in, nil, 0)
	if err != nil {
		fmt.Fprintln(os.Stderr, err)
		os.Exit(1)
	}
	for _, d := range f.Decls {
		fn, ok := d.(*ast.FuncDecl)
		if !ok || fn.Name.Name != "dispatch" || fn.Recv == nil || len(fn.Recv.List) != 1 || fn.Body == nil {
			continue
		}
		if id, ok := root(fn.Recv.List[0].Type).(*ast.Ident); !ok || id.Name != "muxListener" {
			continue
		}
		recv := "_"
		if len(fn.Recv.List[0].Names) == 1 {
			recv = fn.Recv.List[0].Names[0].Name
		}
		kind, found := 0, false
		ast.Inspect(fn.Body, func(n ast.Node) bool {
			call, ok := n.(*ast.CallExpr)
			if !ok || found {
				return !found
			}
			sel, ok := call.Fun.(*ast.SelectorExpr)
			if !ok {
				return true
			}
			arg := -1
			switch sel.Sel.Name {
			case "ReadFull", "ReadAtLeast":
				arg = 1
			case "Read":
				arg = 0
			}
			if arg >= 0 && arg < len(call.Args) {
				found = true
				kind = classify(call.Args[arg], fn, recv, 0)
			}
			return true
		})
		fmt.Printf("found=%v kind=%d\n", found, kind)
		return
	}
	fmt.Println("found=false kind=0")
}
