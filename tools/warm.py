#!/usr/bin/env python3
"""Build every overlay harness once (warms the Go build cache) and regenerate lean/Hy/Gen
(constants from the compiled packages + every property's fact-extraction hooks)."""
import glob
import importlib
import os
import sys
sys.path.insert(0, os.path.dirname(os.path.abspath(__file__)))
from hv import common as C  # noqa: E402

ok = True
hooks = []
for f in sorted(glob.glob(os.path.join(os.path.dirname(os.path.abspath(__file__)), "hv", "props", "C*.py"))):
    m = importlib.import_module("hv.props." + os.path.basename(f)[:-3])
    hooks += m.CFG.get("gen_hooks", [])
for h in hooks:
    try:
        with C.Lock("lean"):
            h()
    except Exception as e:  # noqa
        print("gen hook %s failed: %r" % (getattr(h, "__name__", h), e))
        ok = False
for m in C.MODULES:
    if not os.path.isdir(os.path.join(C.HARNESS, m, "verifh")):
        continue
    b, o = C.build_harness(m)
    if b is None:
        print(o[-3000:])
        ok = False
        continue
    with C.Lock("lean"):
        C.regen_consts(m, b)
# per-property fact extractors (lean/Hy/Gen/<X>.lean files other than the constants)
import glob
import importlib
for f in sorted(glob.glob(os.path.join(os.path.dirname(os.path.abspath(__file__)), "hv", "props", "C*.py"))):
    try:
        mod = importlib.import_module("hv.props." + os.path.basename(f)[:-3])
        for hook in mod.CFG.get("gen_hooks", []):
            with C.Lock("lean"):
                hook()
    except Exception as e:  # noqa
        print("warm: gen hooks of %s failed: %r" % (os.path.basename(f), e))
sys.exit(0 if ok else 1)
