#!/usr/bin/env python3
"""Build every overlay harness once (warms the Go build cache) and regenerate Hy/Gen."""
import os
import sys
sys.path.insert(0, os.path.dirname(os.path.abspath(__file__)))
from hv import common as C  # noqa: E402

ok = True
for m in C.MODULES:
    if not os.path.isdir(os.path.join(C.HARNESS, m, "verifh")):
        continue
    b, o = C.build_harness(m)
    if b is None:
        print(o[-3000:])
        ok = False
        continue
    with C.Lock("lean"):
        C.regen_consts(m, b)
# property-specific regenerated facts (Hy/Gen/*.lean other than the constants): run every
# property's gen_hooks so that `lake build Hy.Props.Cxx` in setup finds its Gen imports
import glob  # noqa: E402
import importlib  # noqa: E402
seen = set()
for f in sorted(glob.glob(os.path.join(os.path.dirname(os.path.abspath(__file__)), "hv", "props", "C*.py"))):
    try:
        m = importlib.import_module("hv.props." + os.path.basename(f)[:-3])
        for hook in m.CFG.get("gen_hooks", []):
            if hook.__name__ in seen:
                continue
            seen.add(hook.__name__)
            with C.Lock("lean"):
                hook()
    except Exception as e:  # noqa
        print("warm: gen hook of %s failed: %r" % (os.path.basename(f), e))
        ok = False
sys.exit(0 if ok else 1)
