#!/usr/bin/env python3
"""Build every overlay harness once (warms the Go build cache) and regenerate Hy/Gen."""
import os
import sys
sys.path.insert(0, os.path.dirname(os.path.abspath(__file__)))
from hv import common as C  # noqa: E402

ok = True
for m in C.MODULES:
    if not os.path.isdir(os.path.join(C.HARNESS, m, "verifh")):
        continue
    b, o = C.build_harness(m)
    if b is None:
        print(o[-3000:])
        ok = False
        continue
    with C.Lock("lean"):
        C.regen_consts(m, b)
sys.exit(0 if ok else 1)
