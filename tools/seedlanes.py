#!/usr/bin/env python3
"""Run `seed.py run` for many seeds in parallel, one at a time per LANE (a separate git worktree of /verif with its own
.build and lean/.lake, prepared with tools/setup.sh), because two checks with different VERIF_REPO must not share a tree.

  seedlanes.py --lanes /tmp/vw/c16,/tmp/vw/c17 C01-5 C01-6 ...

The seed directory is copied into the lane, the result.json copied back to /verif/seeded/<id>/.
"""
import argparse
import os
import queue
import shutil
import subprocess
import threading

VERIF = os.path.dirname(os.path.dirname(os.path.abspath(__file__)))


def worker(lane, q, out):
    while True:
        try:
            sid = q.get_nowait()
        except queue.Empty:
            return
        src = os.path.join(VERIF, "seeded", sid)
        dst = os.path.join(lane, "seeded", sid)
        shutil.rmtree(dst, ignore_errors=True)
        shutil.copytree(src, dst)
        p = subprocess.run(["python3", os.path.join(lane, "tools", "seed.py"), "run", sid], cwd=lane,
                           stdout=subprocess.PIPE, stderr=subprocess.STDOUT, text=True, errors="replace")
        r = os.path.join(dst, "result.json")
        if os.path.exists(r):
            shutil.copy(r, os.path.join(src, "result.json"))
        lines = [l for l in p.stdout.splitlines() if "VIOLATION" in l or "PASS" in l or '"caught"' in l or '"concrete' in l]
        out.append((sid, lane, lines))
        print("== %s (%s)\n%s" % (sid, os.path.basename(lane), "\n".join(x[:220] for x in lines)), flush=True)


def main():
    ap = argparse.ArgumentParser()
    ap.add_argument("--lanes", required=True)
    ap.add_argument("ids", nargs="+")
    a = ap.parse_args()
    q = queue.Queue()
    for i in a.ids:
        q.put(i)
    out = []
    ts = [threading.Thread(target=worker, args=(l, q, out)) for l in a.lanes.split(",")]
    for t in ts:
        t.start()
    for t in ts:
        t.join()


if __name__ == "__main__":
    main()
